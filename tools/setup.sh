#!/bin/sh
# Offline setup: nothing to build.  Verifies that the tooling the checks need is present.
set -e
cd "$(dirname "$0")/.."
python3-vt -c "import z3, sys; assert z3.get_version_string().startswith('5.'), z3.get_version_string()"
test -x /usr/bin/cvc5
PYTHONPATH=/repo python3-vt -c "import ppci"
mkdir -p evidence replays
echo "setup ok"
