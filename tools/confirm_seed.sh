#!/bin/bash
# usage: tools/confirm_seed.sh <Cxx> <dir with seedN.diff/demoN.py> <N> [check-prop ...]
# Confirms a seeded change in a scratch worktree of /repo (outside /repo and /verif),
# runs the named checks against it, prints a JSON summary line, removes the worktree.
id=$1; dir=$(realpath $2); n=$3; shift 3; props=${@:-$id}
wt=/tmp/confirm_${id}_${n}_$$
git -C /repo worktree add -q --detach $wt HEAD || exit 3
cd $wt
cp $dir/demo$n.py demo.py
PYTHONPATH=$wt /venv/bin/python demo.py >/dev/null 2>&1; d0=$?
git apply $dir/seed$n.diff || { echo "patch does not apply"; cd /; git -C /repo worktree remove --force $wt; exit 3; }
PYTHONPATH=$wt /venv/bin/python demo.py >/dev/null 2>&1; d1=$?
tests=$(/venv/bin/python -m pytest -q -p no:cacheprovider -n 8 --timeout=900 2>&1 | tail -1)
rm -f oi.html
res=""
for p in $props; do
  out=$(PPCI_REPO=$wt timeout 1800 /verif/checks/run $p --tier quick --no-evidence 2>&1); rc=$?
  first=$(echo "$out" | grep -m1 '^VIOLATION' | cut -c1-300)
  res="$res {\"check\":\"$p\",\"exit\":$rc,\"first\":\"$(echo $first | sed 's/"/\\"/g')\"}"
done
cd /; git -C /repo worktree remove --force $wt
if [ "$d0" = "0" ] && [ "$d1" != "0" ] && echo "$tests" | grep -q "1400 passed"; then
  out=/verif/seeded/${id}_$n; mkdir -p $out
  cp $dir/seed$n.diff $out/patch.diff; cp $dir/demo$n.py $out/demo.py
  needs=$(cat $dir/needs$n.txt 2>/dev/null | python3 -c "import sys,json; print(json.dumps(sys.stdin.read().strip()))")
  [ -z "$needs" ] && needs='""'
  cat > $out/meta.json <<META
{"property": "$id",
 "needs_to_manifest": $needs,
 "confirmed": {"demo_on_pristine_exit": $d0, "demo_with_patch_exit": $d1, "test_suite_with_patch": "$tests"},
 "ran": ["git -C /repo worktree add --detach <scratch> HEAD", "PYTHONPATH=<scratch> /venv/bin/python demo.py   (pristine, then after git apply patch.diff)", "/venv/bin/python -m pytest -q -p no:cacheprovider -n 8 --timeout=900   (with patch)", "PPCI_REPO=<scratch> /verif/checks/run <check> --tier quick", "git -C /repo worktree remove --force <scratch>"],
 "checks": [$(echo $res | sed 's/} {/},{/g')]}
META
fi
echo "{\"id\":\"$id\",\"seed\":$n,\"demo_pristine\":$d0,\"demo_patched\":$d1,\"tests\":\"$tests\",\"checks\":[$(echo $res | sed 's/} {/},{/g')]}"
