#!/usr/bin/env python3
"""Generate /verif/MANIFEST.json from the table below (single source of truth)."""
import json
import os

HERE = os.path.dirname(os.path.dirname(os.path.abspath(__file__)))

PROOF_NOTE = ("Trusted base: pyvc (symbolic proxies + loop cutting; cross-checked every run by evaluating each contract natively on the real function for the solver's witness and sampled inputs), z3 5.1 / cvc5 1.0.3, "
              "spec functions and specification tables written from the property statement (T5), assumed contracts of stdlib "
              "functions listed in the evidence file. Python ints are mathematical integers (exact). Termination only where a "
              "decreases clause is given.")

# claimed checks live in tools/claims.json: id -> {category, text, technique, design_ref, note}
CLAIMED = json.load(open(os.path.join(HERE, "tools", "claims.json")))
for _v in CLAIMED.values():
    if _v.get("note") == "PROOF_NOTE":
        _v["note"] = PROOF_NOTE

NOT_APPLICABLE = {
    "C01": "oracle is a conforming C compiler over whole programs; needs formal semantics of C and the IR; no function contract expresses it",
    "C02": "per-pass semantic preservation over arbitrary CFGs needs an IR semantics and simulation proofs over a mutable object graph; the folding arithmetic slice is decided under C38",
    "C03": "well-formedness is an invariant of an unbounded aliased object graph (def-use sets, predecessors); pyvc has no heap/frame logic to state or prove it for the passes",
    "C04": "observable behaviour of generated x86-64 machine code vs gcc; would need ISA semantics and an emulator oracle, outside contract reach",
    "C05": "machine code vs IR semantics on emulated targets; needs ISA semantics per target, outside contract reach",
    "C06": "correctness of graph-colouring allocation (liveness fix point, interference, coalescing, spilling) is a whole-algorithm theorem, not a function contract within SMT reach",
    "C07": "oracle is the hardware semantics of each instruction; nothing to state a postcondition against",
    "C08": "oracle is an external disassembler / ISA manuals for ~1400 instruction classes; the function-level part (placing a value into declared bits) is decided under C10",
    "C09": "round trip through a grammar generated at run time and an LR parser; no contract-level statement within reach",
    "C15": "printer/parser round trip over the whole IR object graph with forward references; equality is graph isomorphism; regex tokenising of unbounded strings",
    "C16": "dict reader/writer over the whole IR object graph; equality is graph isomorphism; no contract within reach",
    "C17": "conformance to the ELF specification as judged by independent readers; no function-level oracle",
    "C21": "wasm binary/text codecs over a module object graph; only the LEB128 codec is function-level (decided under C20)",
    "C23": "IR->wasm structuring (relooper) and behaviour in a reference engine; whole-pipeline property, no function contract",
    "C28": "absence of internal errors over all programs = exception freedom of the entire front-end; proved only for individual functions inside other claims",
    "C29": "exception freedom of instruction selection / register allocation over all IR; whole-pipeline property",
    "C30": "2-safety property across processes and hash seeds; not a pre/postcondition of any function",
    "C37": "C3 front-end vs gcc over whole programs, as C01",
}

PENDING_REASON = "check not registered yet (under construction, see DESIGN.md 9.6); not claimed in this revision"


def main():
    props = [json.loads(l) for l in open(os.path.join(HERE, "properties.jsonl"))]
    ids = [p["id"] for p in props]
    checks = []
    na = []
    for pid in ids:
        if pid in CLAIMED:
            c = CLAIMED[pid]
            checks.append({
                "property_id": pid,
                "quick_cmd": "checks/run %s --tier quick" % pid,
                "thorough_cmd": "checks/run %s --tier thorough" % pid,
                "evidence_file": "/verif/evidence/%s.json" % pid,
                "replay_cmd_template": "checks/run --replay {path}",
                "engine": c.get("engine", "pyvc"),
                "level_claimed": {"category": c["category"], "text": c["text"], "design_ref": c["design_ref"]},
                "level_note": c["note"],
                "technique": c["technique"],
            })
        elif pid in NOT_APPLICABLE:
            na.append({"property_id": pid, "reason": NOT_APPLICABLE[pid]})
        else:
            na.append({"property_id": pid, "reason": PENDING_REASON})
    man = {
        "version": 1,
        "setup_cmd": "tools/setup.sh",
        "hooks": {
            "guard": "PPCI_VERIF",
            "enable": "no hooks are needed: contracts are sidecars in /verif/contracts and the checker re-reads /repo's sources on every run",
            "baseline_off_cmd": "cd /repo && /venv/bin/python -m pytest -ra -q -p no:cacheprovider --timeout=900 --continue-on-collection-errors",
            "source_commits": [],
            "add_only": True,
        },
        "engines": [
            {"name": "pyvc", "path": "/verif/pyvc", "serves_properties": sorted(CLAIMED),
             "kind_free_text": "contract-based deductive verifier for Python built here: executes the real ppci functions on symbolic proxies "
                               "(z3 Int/Seq), cuts loops at sidecar invariants by AST rewriting of the function's own source, discharges every "
                               "obligation with z3 (cvc5 as second back end), replays counter-models on the real code"},
        ],
        "checks": checks,
        "not_applicable": na,
        "notes": "Exit codes of every check: 0 all obligations proved; 1 refuted obligation (VIOLATION line + replay file); 2 undecided "
                 "(solver unknown / unsupported construct / stale contract), never reported as a violation; 3 checker error. "
                 "Known findings: /verif/known_findings.jsonl.",
    }
    with open(os.path.join(HERE, "MANIFEST.json"), "w") as f:
        json.dump(man, f, indent=1)
    print("claimed:", sorted(CLAIMED), "n/a:", len(na))


if __name__ == "__main__":
    main()
