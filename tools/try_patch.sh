#!/bin/bash
# usage: tools/try_patch.sh <patch.diff> <Cxx> [runner args...]   -- run one check against a patched scratch worktree
patch=$(realpath $1); id=$2; shift 2
wt=/tmp/try_${id}_$$
git -C /repo worktree add -q --detach $wt HEAD || exit 3
( cd $wt && git apply $patch ) || { echo "patch does not apply"; git -C /repo worktree remove --force $wt; exit 3; }
PPCI_REPO=$wt timeout 1800 /verif/checks/run $id --tier quick --no-evidence "$@" 2>&1 | grep -v '^KNOWN-FINDING' | cut -c1-400 | head -20
echo "exit=${PIPESTATUS[0]}"
git -C /repo worktree remove --force $wt
