#!/usr/bin/env python3-vt
"""Solver-stability sweep (development aid, not a registered check).

  PYTHONPATH=/repo:/verif python3-vt tools/stability.py <Cxx> [nseeds] [timeout_ms] [only-substr]

Re-discharges every obligation of the property's contracts and lemmas under
`nseeds` different z3 random seeds and prints, per obligation, the slowest time
and every seed whose verdict was not `proved`.  An obligation whose slowest seed
approaches the quick-tier budget is one that will flake under load.
"""
import sys, os, time, importlib
import multiprocessing as mp
sys.path.insert(0, os.path.join(os.path.dirname(__file__), ".."))
import z3
from pyvc import engine


def sweep_job(a):
    modname, ci, gi, nseeds, tmo = a
    mod = importlib.import_module(modname)
    ct = mod.CONTRACTS[ci]
    orig = engine.discharge
    stats = {}
    cur = [None]

    def wrapped(pc, goal, timeout_ms, axioms=()):
        out = None
        for seed in range(nseeds):
            z3.set_param("smt.random_seed", seed)
            z3.set_param("sat.random_seed", seed)
            r = orig(pc, goal, tmo, axioms)
            stats.setdefault(id(goal), []).append((seed, r[0], r[2], str(goal)[:100]))
            if out is None:
                out = r
        z3.set_param("smt.random_seed", 0)
        z3.set_param("sat.random_seed", 0)
        return out
    engine.discharge = wrapped
    try:
        r = engine.run_contract(ct, ct.grid[gi], timeout_ms=tmo)
    finally:
        engine.discharge = orig
    rows = []
    names = list(r["obligations"])
    for k, lst in stats.items():
        worst = max(t for _, _, t, _ in lst)
        bad = [(s, st) for s, st, _, _ in lst if st != "proved"]
        rows.append((worst, bad, lst[0][3]))
    return ct.label, repr(ct.grid[gi]), rows, r["undecided"], r["errors"]


def main():
    prop = sys.argv[1]
    nseeds = int(sys.argv[2]) if len(sys.argv) > 2 else 5
    tmo = int(sys.argv[3]) if len(sys.argv) > 3 else 10000
    only = sys.argv[4] if len(sys.argv) > 4 else None
    modname = "contracts." + prop.lower()
    mod = importlib.import_module(modname)
    from pyvc.runner import _attach_known
    _attach_known(mod, prop)
    mod._known_attached = True
    jobs = [(modname, ci, gi, nseeds, tmo) for ci, ct in enumerate(mod.CONTRACTS) for gi in range(len(ct.grid))
            if not only or only in ct.label]
    with mp.get_context("fork").Pool(min(8, max(1, len(jobs)))) as pool:
        for label, g, rows, und, errs in pool.imap_unordered(sweep_job, jobs):
            for worst, bad, goal in sorted(rows, key=lambda r: -r[0])[:4]:
                if worst > 0.5 or bad:
                    print("%6.2fs  %s %s  bad=%s  %s" % (worst, label, g, bad, goal.replace("\n", " ")))
            for u in und + errs:
                print("   !!", label, g, u[:300])
    for lem in getattr(mod, "LEMMAS", []):
        if only and only not in lem.name:
            continue
        res = []
        for seed in range(nseeds):
            z3.set_param("smt.random_seed", seed)
            z3.set_param("sat.random_seed", seed)
            t = time.time()
            st, info = lem.run(tmo)
            res.append((seed, st, round(time.time() - t, 2)))
        worst = max(t for _, _, t in res)
        bad = [(s, st) for s, st, _ in res if st != "proved"]
        print("%6.2fs  lemma %s bad=%s" % (worst, lem.name, bad))


if __name__ == "__main__":
    main()
