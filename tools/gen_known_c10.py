#!/usr/bin/env python3
"""Generate the C10 known-finding entries (one per relocation row that silently accepts
unrepresentable values on the unchanged tree) from contracts/relocspec.ACCEPTS.
Witnesses are taken from the replay files of a run without these entries and re-checked natively."""
import glob, json, os, sys
sys.path.insert(0, "/verif"); sys.path.insert(0, os.environ.get("PPCI_REPO", "/repo"))
from contracts import relocspec as RS
import contracts.c10 as C10
from pyvc.engine import replay_native
labels = {c.grid[0]["row"].cls: (i, c) for i, c in enumerate(C10.CONTRACTS) if c.label.endswith("[reject]")}
wit = {}
for f in glob.glob("/verif/replays/C10_*.json"):
    d = json.load(open(f))
    if "[reject]/raises-when" in d["obligation"] and d.get("replayed") and d.get("inputs"):
        for cls, (i, c) in labels.items():
            if d.get("contract_index") == i:
                wit[cls] = d["inputs"]
out = []
for cls, (why, fn) in sorted(RS.ACCEPTS.items()):
    i, c = labels[cls]
    w = wit.get(cls)
    if w is None:
        print("no witness for", cls, file=sys.stderr); continue
    ok, detail = replay_native(c, c.grid[0], w)
    assert ok is False, (cls, ok, detail)
    assert bool(RS.row_accepts(cls, w["S"], w["P"], w.get("A", 0))), ("witness outside region", cls, w)
    short = cls.split("ppci.arch.")[1]
    out.append({"id": "C10-accept-" + short.replace(":", "."), "property": "C10", "contract": c.label, "obligation": "raises-when",
                "region": "row_accepts(%r, S, P, A)" % cls, "witness": w,
                "what": "%s.apply does not reject an unrepresentable value: %s" % (short, why)})
for o in out:
    print(json.dumps(o))
