"""pyvc.symfloat -- symbolic Python floats for the few operations ppci's float helpers use.

A symbolic float is NaN, +/-infinity or finite; a *finite* double is modelled by its exact real
value as an arbitrary z3 Real (an over-approximation of the set of doubles: whatever is proved for
every real holds for every double; a counter-model is rounded to the nearest double and replayed on
the real code before it is reported as a failing input).  No floating-point arithmetic is modelled
(it would need rounding): comparison with ints / floats (CPython compares by mathematical value;
every comparison with NaN is False), math.isinf / isnan, int(x) (truncation toward zero; ValueError
for NaN, OverflowError for infinities), math.floor / ceil / trunc and round(x) (half to even) as ints.
The sign bit is tracked separately (`neg`): for a finite non-zero value it is the sign of the real, for zero,
infinities and NaN it is free, so -0.0 and 0.0 are distinct values that compare equal.  Exact operations that
need no rounding are modelled: negation, fabs, copysign, and float(n) for an integer n obtained from
floor / ceil / trunc / round of a float (exact for doubles: below 2^53 every integer is a double, above it the
float is its own floor; an ASSUMED fact about binary64, since the model's reals are a superset of the doubles).
math.sqrt is modelled only as far as its special cases go (ValueError for negative operands, sqrt(+-0) = +-0,
sqrt(+inf) = +inf, NaN for NaN, otherwise some finite non-negative value).
"""
import math as _math
from fractions import Fraction
import z3
from . import sym as S
from .sym import SymInt, SymBool, ctx, mk, mkb, as_z3_int


class SymFloat:
    def __init__(self, nan, inf, neg, r):
        self.nan, self.inf, self.neg, self.r = nan, inf, neg, r

    @staticmethod
    def of(x):
        if isinstance(x, SymFloat):
            return x
        if isinstance(x, float):
            if _math.isnan(x):
                return SymFloat(z3.BoolVal(True), z3.BoolVal(False), z3.BoolVal(_math.copysign(1.0, x) < 0), z3.RealVal(0))
            if _math.isinf(x):
                return SymFloat(z3.BoolVal(False), z3.BoolVal(True), z3.BoolVal(x < 0), z3.RealVal(0))
            f = Fraction(x)
            return SymFloat(z3.BoolVal(False), z3.BoolVal(False), z3.BoolVal(_math.copysign(1.0, x) < 0), z3.RealVal(f.numerator) / z3.RealVal(f.denominator))
        if isinstance(x, (int, SymInt, SymBool)):
            return SymFloat(z3.BoolVal(False), z3.BoolVal(False), z3.BoolVal(False), z3.ToReal(as_z3_int(x)))
        return None

    def _cmp(self, o, op):
        b = SymFloat.of(o)
        if b is None:
            return NotImplemented
        a = self
        if op in ("gt", "ge"):
            a, b = b, a
            op = {"gt": "lt", "ge": "le"}[op]
        ok = z3.And(z3.Not(a.nan), z3.Not(b.nan))
        a_ninf, a_pinf = z3.And(a.inf, a.neg), z3.And(a.inf, z3.Not(a.neg))
        b_ninf, b_pinf = z3.And(b.inf, b.neg), z3.And(b.inf, z3.Not(b.neg))
        fin = z3.And(z3.Not(a.inf), z3.Not(b.inf))
        if op == "lt":
            body = z3.Or(z3.And(a_ninf, z3.Not(b_ninf)), z3.And(b_pinf, z3.Not(a_pinf)), z3.And(fin, a.r < b.r))
        elif op == "le":
            body = z3.Or(a_ninf, b_pinf, z3.And(fin, a.r <= b.r))
        else:
            body = z3.Or(z3.And(a_ninf, b_ninf), z3.And(a_pinf, b_pinf), z3.And(fin, a.r == b.r))
        return mkb(z3.simplify(z3.And(ok, body)))

    def __lt__(self, o): return self._cmp(o, "lt")
    def __le__(self, o): return self._cmp(o, "le")
    def __gt__(self, o): return self._cmp(o, "gt")
    def __ge__(self, o): return self._cmp(o, "ge")
    def __eq__(self, o): return self._cmp(o, "eq")

    def __ne__(self, o):
        r = self._cmp(o, "eq")
        return r if r is NotImplemented else S.sym_not(r)

    __hash__ = None

    def __repr__(self):
        return "SymFloat(%s)" % (self.r,)

    def _unsupported(self, *a):
        raise S.Undecided("floating-point arithmetic on a symbolic float is not modelled")

    __add__ = __radd__ = __sub__ = __rsub__ = __mul__ = __rmul__ = __truediv__ = __rtruediv__ = _unsupported

    def __neg__(self):
        return SymFloat(self.nan, self.inf, z3.Not(self.neg), -self.r)

    def __abs__(self):
        return SymFloat(self.nan, self.inf, z3.BoolVal(False), z3.If(self.r < 0, -self.r, self.r))

    def __round__(self, *a):
        if a:
            raise S.Undecided("round(x, ndigits) on a symbolic float is not modelled")
        return self.to_int("round")

    def __float__(self):
        raise S.Undecided("a symbolic float reached C code that needs a concrete double")

    # ---- conversions
    def to_int(self, mode="trunc"):
        c = ctx()
        if c.decide(self.nan):
            raise ValueError("cannot convert float NaN to integer")
        if c.decide(self.inf):
            raise OverflowError("cannot convert float infinity to integer")
        n = SymInt(real_to_int(self.r, mode))
        _FROM_FLOAT[n.e.get_id()] = (n.e, self)
        return n

    def isinf(self):
        return mkb(self.inf)

    def isnan(self):
        return mkb(self.nan)


_FROM_FLOAT = {}      # id of an integer term -> (term, the float it was rounded from)


def float_of_int(n):
    """float(n): exact when n was obtained by rounding a float to an integral value (see module docstring)"""
    if isinstance(n, SymInt):
        hit = _FROM_FLOAT.get(n.e.get_id())
        if hit is not None and hit[0].eq(n.e):
            return SymFloat(z3.BoolVal(False), z3.BoolVal(False), z3.ToReal(n.e) < 0, z3.ToReal(n.e))
    raise S.Undecided("float(symbolic int) needs rounding, not modelled")


def real_to_int(r, mode):
    fl = z3.ToInt(r)                       # floor
    ce = -z3.ToInt(-r)                     # ceil
    if mode == "floor":
        return fl
    if mode == "ceil":
        return ce
    if mode == "trunc":
        return z3.If(r >= 0, fl, ce)
    if mode == "round":                    # half to even
        d = r - z3.ToReal(fl)
        half = z3.RealVal(1) / 2
        return z3.If(d < half, fl, z3.If(d > half, fl + 1, z3.If(fl % 2 == 0, fl, fl + 1)))
    raise ValueError(mode)


def fresh(name):
    nan, inf, neg = z3.Bool(name + ".nan"), z3.Bool(name + ".inf"), z3.Bool(name + ".neg")
    r = z3.Real(name + ".real")
    c = ctx()
    c.assume(z3.Not(z3.And(nan, inf)))
    c.assume(z3.Implies(z3.And(z3.Not(nan), z3.Not(inf), r != 0), neg == (r < 0)))
    return SymFloat(nan, inf, neg, r)


class math_proxy:
    """`math` for modules under contract: symbolic floats are handled, everything else is the real module."""

    def __getattr__(self, k):
        return getattr(_math, k)

    @staticmethod
    def isinf(x):
        return x.isinf() if isinstance(x, SymFloat) else _math.isinf(x)

    @staticmethod
    def isnan(x):
        return x.isnan() if isinstance(x, SymFloat) else _math.isnan(x)

    @staticmethod
    def floor(x):
        return x.to_int("floor") if isinstance(x, SymFloat) else _math.floor(x)

    @staticmethod
    def ceil(x):
        return x.to_int("ceil") if isinstance(x, SymFloat) else _math.ceil(x)

    @staticmethod
    def trunc(x):
        return x.to_int("trunc") if isinstance(x, SymFloat) else _math.trunc(x)


    @staticmethod
    def fabs(x):
        return abs(x) if isinstance(x, SymFloat) else _math.fabs(x)

    @staticmethod
    def copysign(x, y):
        if not isinstance(x, SymFloat) and not isinstance(y, SymFloat):
            return _math.copysign(x, y)
        a, b = SymFloat.of(x), SymFloat.of(y)
        mag = z3.If(a.r < 0, -a.r, a.r)
        return SymFloat(a.nan, a.inf, b.neg, z3.If(b.neg, -mag, mag))

    @staticmethod
    def sqrt(x):
        if not isinstance(x, SymFloat):
            return _math.sqrt(x)
        c = ctx()
        if c.decide(x.nan):
            return x
        if c.decide(x.inf):
            if c.decide(x.neg):
                raise ValueError("math domain error")
            return x
        if c.decide(x.r < 0):
            raise ValueError("math domain error")
        if c.decide(x.r == 0):
            return x                                   # sqrt(-0.0) == -0.0
        r = z3.Real(c.fresh_name("sqrt"))
        c.assume(r > 0)                                  # some positive finite value (rounding not modelled)
        return SymFloat(z3.BoolVal(False), z3.BoolVal(False), z3.BoolVal(False), r)


MATH = math_proxy()


def feq(a, b):
    """the same float VALUE (bit pattern up to NaN payload): both NaN, or same infinity, or same real and sign"""
    a, b = SymFloat.of(a), SymFloat.of(b)
    return mkb(z3.simplify(z3.Or(z3.And(a.nan, b.nan),
                                 z3.And(z3.Not(a.nan), z3.Not(b.nan), a.inf == b.inf, a.neg == b.neg, z3.Or(a.inf, a.r == b.r)))))


def sym_float(x=0.0):
    if isinstance(x, SymFloat):
        return x
    if isinstance(x, SymBool):
        raise S.Undecided("float(symbolic bool) not modelled")
    if isinstance(x, SymInt):
        return float_of_int(x)
    return float(x)


def sym_round(x, *a):
    if isinstance(x, SymFloat) and not a:
        return x.to_int("round")
    if isinstance(x, (SymInt, SymBool)) and not a:
        return x if isinstance(x, SymInt) else x._int()      # round(int) is the int itself
    return round(x, *a)


def model_float(model, v):
    """nearest double of the model's value"""
    if z3.is_true(model.eval(v.nan, model_completion=True)):
        return float("nan")
    if z3.is_true(model.eval(v.inf, model_completion=True)):
        return float("-inf") if z3.is_true(model.eval(v.neg, model_completion=True)) else float("inf")
    q = model.eval(v.r, model_completion=True)
    neg = z3.is_true(model.eval(v.neg, model_completion=True))
    try:
        if z3.is_rational_value(q):
            x = float(Fraction(q.numerator_as_long(), q.denominator_as_long()))
        else:
            x = float(q.approx(20).as_fraction())
    except Exception:
        x = 0.0
    if x == 0:
        return -0.0 if neg else 0.0
    return x
