"""pyvc.sym -- symbolic proxy values and the path context.

Every semantic rule that is not plain CPython execution lives in this file.
Rules are cross-checked against CPython on every run through the native contract evaluation of the runner (T2).

Integers are z3 Int (mathematical): Python ints are unbounded, so this is exact.
"""
import z3

Z = z3


class PathEnd(BaseException):
    """Raised to stop the current path (after a cut loop iteration)."""


class Undecided(BaseException):
    """An operation the proxies cannot express; the obligation set of the
    function is then *undecided* (exit 2), never passed and never a violation."""


class _VcBase(BaseException):
    pass


# ---------------------------------------------------------------- pow2

pow2f = z3.Function("pow2", z3.IntSort(), z3.IntSort())
_n = z3.Int("n!p")
_m = z3.Int("m!p")
POW2_AXIOMS = [
    pow2f(0) == 1,
    z3.ForAll([_n], z3.Implies(_n >= 0, pow2f(_n + 1) == 2 * pow2f(_n)),
              patterns=[pow2f(_n + 1)]),
    z3.ForAll([_n], z3.Implies(_n >= 0, pow2f(_n) >= 1), patterns=[pow2f(_n)]),
    z3.ForAll([_n], z3.Implies(_n >= 0, pow2f(_n + 7) == 128 * pow2f(_n)),
              patterns=[pow2f(_n + 7)]),
]


def _uses_pow2(e):
    seen = set()
    todo = [e]
    while todo:
        t = todo.pop()
        if t.get_id() in seen:
            continue
        seen.add(t.get_id())
        if z3.is_app(t):
            if t.decl().name() == "pow2" and t.num_args() == 1 and \
                    not z3.is_int_value(t.arg(0)):
                return True
            todo.extend(t.children())
        elif z3.is_quantifier(t):
            todo.append(t.body())
    return False


# ---------------------------------------------------------------- context

import os as _os

# Solver budgets.  A budget of `ms` milliseconds is enforced as z3's deterministic
# resource limit (rlimit, a count of solver steps: about RL_PER_MS per millisecond
# on an idle core of this sandbox), with a wall-clock limit WALL_FACTOR times larger
# as a backstop only.  Outcomes of the many small validity / feasibility queries
# made while a path is explored (is this shift count < 64? is this branch
# feasible?) therefore do not depend on how busy the machine is: a starved
# process gets the same answers, later.  (With wall-clock budgets a trivially
# valid 0.5 s query timed out under 4x CPU oversubscription, the path took a
# different shape and an unmodelled operation surfaced as a spurious refutation.)
RL_PER_MS = 6000
WALL_FACTOR = 8


FEAS_WALL_FACTOR = 2   # branch-feasibility queries: over sequences the usual answer is
#                        `unknown` (= feasible) at the limit, and z3's sequence solver counts
#                        few rlimit steps per second, so a large backstop is all cost, no benefit


def set_budget(solver, ms, wall_factor=None):
    solver.set("rlimit", int(ms) * RL_PER_MS)
    solver.set("timeout", int(ms) * (wall_factor or WALL_FACTOR))


_TRACE_SLOW =float(_os.environ["PYVC_TRACE_SLOW"]) if _os.environ.get("PYVC_TRACE_SLOW") else None


class Ctx:
    """State of one explored path."""

    def __init__(self, forced=(), timeout_ms=10000):
        self.forced = list(forced)
        self.log = []
        self.pc = []            # list of z3 BoolRef (path condition + assumptions)
        self.forks = []         # new decision prefixes discovered on this path
        self.obligations = []   # (name, pc_snapshot, goal, extra) recorded
        self.timeout_ms = timeout_ms
        self.feas_timeout_ms = 1000
        self.fresh = 0
        self.solver_calls = 0
        self.solver_time = 0.0
        self.undecided = []
        self.ghost = {}
        self.axioms = []        # extra axioms (spec function defs are global in z3)
        self.notes = []
        self._solver = None
        self._solver_n = 0

    # -- solver helpers
    def _mk_solver(self, exprs, timeout=None, wall_factor=None):
        s = z3.Solver()
        set_budget(s, timeout or self.timeout_ms, wall_factor)
        need_pow2 = any(_uses_pow2(e) for e in exprs)
        if need_pow2:
            for a in POW2_AXIOMS:
                s.add(a)
        for a in self.axioms:
            s.add(a)
        return s

    def check(self, *extra, timeout=None, wall_factor=None):
        """sat / unsat / unknown of pc + extra."""
        import time
        t0 = time.time()
        exprs = list(self.pc) + list(extra)
        s = self._mk_solver(exprs, timeout, wall_factor)
        for e in exprs:
            s.add(e)
        r = s.check()
        self.solver_calls += 1
        self.solver_time += time.time() - t0
        if _TRACE_SLOW is not None and time.time() - t0 > _TRACE_SLOW:
            import sys
            sys.stderr.write("SLOW-PATH-CHECK %.2fs %s budget=%s: %s\n" % (
                time.time() - t0, r, timeout or self.timeout_ms, " & ".join(str(x)[:120] for x in extra).replace("\n", " ")))
        return r, s

    def feasible(self, e):
        # unknown counts as feasible (sound: an infeasible path only yields
        # obligations that are vacuously provable)
        r, _ = self.check(e, timeout=self.feas_timeout_ms, wall_factor=FEAS_WALL_FACTOR)
        return r != z3.unsat

    def valid(self, e):
        """True iff pc => e is proved."""
        r, _ = self.check(z3.Not(e))
        return r == z3.unsat

    def assume(self, e):
        e = as_z3_bool(e)
        self.pc.append(e)

    def fresh_name(self, base):
        self.fresh += 1
        return "%s!%d" % (base, self.fresh)

    def fresh_int(self, base="h"):
        return SymInt(z3.Int(self.fresh_name(base)))

    # -- branching
    def decide(self, e):
        """Return a Python bool for symbolic condition e, forking if needed."""
        e = z3.simplify(e)
        if z3.is_true(e):
            return True
        if z3.is_false(e):
            return False
        pos = len(self.log)
        if pos < len(self.forced):
            choice = self.forced[pos]
        else:
            can_t = self.feasible(e)
            can_f = self.feasible(z3.Not(e)) if can_t else True
            if can_t and can_f:
                choice = True
                self.forks.append(self.log + [False])
            elif can_t:
                choice = True
            else:
                choice = False
        self.log.append(choice)
        self.pc.append(e if choice else z3.Not(e))
        return choice

    def choose(self, e, values, complete=False):
        """K-way path split: concretise integer expression e to one of `values`
        (one path per feasible value).  Returns the chosen value, or None if no
        value is feasible (e lies outside `values` on this path)."""
        values = list(values)
        pos = len(self.log)
        other = z3.And(*[e != v for v in values]) if values else z3.BoolVal(True)
        if pos < len(self.forced):
            choice = self.forced[pos]
        else:
            feas = [v for v in values if self.feasible(e == v)]
            if not complete:
                # "none of the values": usually infeasible (the caller established the range).  An `unknown` here would
                # send a path on with a symbolic count and end in an undecided verdict, so a time-out (machine under
                # load) gets a second, longer try before the branch is kept
                r, _ = self.check(other, timeout=self.feas_timeout_ms, wall_factor=FEAS_WALL_FACTOR)
                if r == z3.unknown:
                    r, _ = self.check(other, timeout=8 * self.feas_timeout_ms, wall_factor=4 * FEAS_WALL_FACTOR)
                if r != z3.unsat:
                    feas.append("other")
            if not feas:
                feas = ["other"]
            choice = feas[0]
            for v in feas[1:]:
                self.forks.append(self.log + [v])
        self.log.append(choice)
        if choice == "other":
            self.pc.append(other)
            return None
        self.pc.append(e == choice)
        return choice

    def split(self, t, f):
        """Two-way path split on a disjunction  t \\/ f  that is valid by
        construction (e.g. `exists i. bad(i)` skolemised vs `forall j. good(j)`)."""
        pos = len(self.log)
        if pos < len(self.forced):
            choice = self.forced[pos]
        else:
            can_t = self.feasible(t)
            can_f = self.feasible(f) if can_t else True
            if can_t and can_f:
                choice = True
                self.forks.append(self.log + [False])
            elif can_t:
                choice = True
            else:
                choice = False
        self.log.append(choice)
        self.pc.append(t if choice else f)
        return choice

    # -- obligations
    def oblige(self, name, goal, info=None):
        """Record an obligation pc => goal; afterwards the goal is assumed."""
        if isinstance(goal, bool):
            goal = z3.BoolVal(goal)
        goal = as_z3_bool(goal)
        self.obligations.append((name, list(self.pc), goal, info))
        self.pc.append(goal)


_CTX = [None]


def ctx():
    c = _CTX[0]
    if c is None:
        raise RuntimeError("no active symbolic context")
    return c


def set_ctx(c):
    _CTX[0] = c


def active():
    return _CTX[0] is not None


# ---------------------------------------------------------------- helpers

def is_sym(x):
    return isinstance(x, (SymInt, SymBool, SymSeq))


def as_z3_int(x):
    if isinstance(x, SymInt):
        return x.e
    if isinstance(x, SymBool):
        return z3.If(x.e, z3.IntVal(1), z3.IntVal(0))
    if isinstance(x, bool):
        return z3.IntVal(1 if x else 0)
    if isinstance(x, int):
        return z3.IntVal(x)
    if z3.is_expr(x):
        return x
    raise Undecided("not an integer: %r" % (type(x),))


def as_z3_bool(x):
    if isinstance(x, SymBool):
        return x.e
    if isinstance(x, bool):
        return z3.BoolVal(x)
    if isinstance(x, SymInt):
        return x.e != 0
    if isinstance(x, int):
        return z3.BoolVal(x != 0)
    if z3.is_expr(x):
        return x
    if x is None:
        return z3.BoolVal(False)
    if isinstance(x, SymSeq):
        return z3.Length(x.e) > 0
    if isinstance(x, (list, tuple, bytes, bytearray, str)):
        return z3.BoolVal(len(x) > 0)
    raise Undecided("not a boolean: %r" % (type(x),))


def _concrete(x):
    """Python int if x is a concrete integer (possibly wrapped), else None."""
    if isinstance(x, bool):
        return int(x)
    if isinstance(x, int):
        return x
    if isinstance(x, SymInt):
        e = z3.simplify(x.e)
        if z3.is_int_value(e):
            return e.as_long()
    return None


def mk(e, **meta):
    """Wrap a z3 Int expression; collapse to a Python int when concrete."""
    e = z3.simplify(e) if not z3.is_int_value(e) else e
    if z3.is_int_value(e):
        return e.as_long()
    r = SymInt(e)
    for k, v in meta.items():
        setattr(r, k, v)
    return r


_ITEMS = {}


def remember(x):
    """keep the proxy (with its known-bits / bit-slice metadata) of a value that is
    stored into a sequence, so that reading the item back does not lose it"""
    if isinstance(x, SymInt) and (x.kb is not None or x.parts is not None):
        if len(_ITEMS) > 20000:
            _ITEMS.clear()
        _ITEMS[x.e.get_id()] = x
    return x


def mk_item(e):
    o = _ITEMS.get(e.get_id())
    if o is not None and o.e.eq(e):
        return o
    return mk(e)


def mkw(e, width):
    r = mk(e)
    if isinstance(r, SymInt):
        r.width = width
    return r


def mkb(e):
    e = z3.simplify(e)
    if z3.is_true(e):
        return True
    if z3.is_false(e):
        return False
    return SymBool(e)


def floordiv_z3(a, b):
    """Python floor division of z3 ints a, b (b concrete int or z3 expr)."""
    if isinstance(b, int):
        if b > 0:
            return a / z3.IntVal(b)
        if b < 0:
            return (-a) / z3.IntVal(-b)
        raise ZeroDivisionError("integer division or modulo by zero")
    # symbolic divisor: z3 div is Euclidean (remainder >= 0)
    return z3.If(b > 0, a / b, (-a) / (-b))


def mod_z3(a, b):
    if isinstance(b, int):
        if b > 0:
            return a % z3.IntVal(b)
        if b < 0:
            return -((-a) % z3.IntVal(-b))
        raise ZeroDivisionError("integer division or modulo by zero")
    return z3.If(b > 0, a % b, -((-a) % (-b)))


def _mask_runs(m):
    """Runs of 1 bits of non-negative int m: list of (lo, width)."""
    runs = []
    i = 0
    while m >> i:
        if (m >> i) & 1:
            lo = i
            while (m >> i) & 1:
                i += 1
            runs.append((lo, i - lo))
        else:
            i += 1
    return runs


def _pow2_factor(e):
    """(x, k) with e == x * 2**k syntactically (k maximal over numeral factors)."""
    if z3.is_app(e) and e.decl().kind() == z3.Z3_OP_MUL and e.num_args() == 2:
        c, x = e.arg(0), e.arg(1)
        if z3.is_int_value(x):
            c, x = x, c
        if z3.is_int_value(c):
            v = c.as_long()
            if v > 0 and v & (v - 1) == 0:
                return x, v.bit_length() - 1
    return e, 0


def div_pow2(e, k):
    """floor(e / 2**k) with nested divisions and power-of-two factors folded:
    floor(floor(x / 2^a) / 2^b) == floor(x / 2^(a+b));  floor(x*2^a / 2^b) ==
    floor(x / 2^(b-a)) for b >= a,  x * 2^(a-b) otherwise."""
    if k == 0:
        return e
    if z3.is_app(e) and e.decl().kind() == z3.Z3_OP_IDIV:
        d = e.arg(1)
        if z3.is_int_value(d):
            v = d.as_long()
            if v > 0 and v & (v - 1) == 0:
                return div_pow2(e.arg(0), k + v.bit_length() - 1)
    x, a = _pow2_factor(e)
    if a:
        if k >= a:
            return div_pow2(x, k - a)
        return x * z3.IntVal(1 << (a - k))
    return e / z3.IntVal(1 << k)


def fork_value(o):
    """Concretise a symbolic integer known to lie in a small range by forking
    one path per value (used for shift counts).  None if the range is not small."""
    K = small_range(o)
    if K is None:
        return None
    c = ctx()
    eo = as_z3_int(o)
    r = c.choose(eo, range(K), complete=True)
    if r is None:
        raise PathEnd()      # infeasible path (the range was proved)
    return r


def and_const_z3(a, m):
    """a & m for z3 int a and concrete int m (exact, infinite two's complement)."""
    if m == 0:
        return z3.IntVal(0)
    if m < 0:
        # a & m == a - (a & ~m), ~m >= 0
        return a - and_const_z3(a, ~m)
    terms = []
    for lo, w in _mask_runs(m):
        t = div_pow2(a, lo)
        t = t % z3.IntVal(1 << w)
        terms.append(t * z3.IntVal(1 << lo) if lo else t)
    r = terms[0]
    for t in terms[1:]:
        r = r + t
    return r


MAX_BLAST = 130


def width_of(x):
    """Smallest k from the candidate list with 0 <= x < 2**k provable, or None."""
    if isinstance(x, int):
        if x < 0:
            return None
        return max(x.bit_length(), 1)
    w = getattr(x, "width", None)
    if w is not None:
        return w
    c = ctx()
    cache = c.ghost.setdefault("width_cache", {})
    key = x.e.get_id()
    hit = cache.get(key)
    if hit is not None and hit[0] == len(c.pc):
        return hit[1]
    res = None
    # one query decides the common negative case (the value may be negative)
    r, _ = c.check(x.e < 0, timeout=1000)
    if r == z3.unsat:
        for k in (1, 8, 16, 32, 64, 128):
            r, _ = c.check(z3.Not(x.e < z3.IntVal(1 << k)), timeout=1000)
            if r == z3.unsat:
                x.width = k
                res = k
                break
    cache[key] = (len(c.pc), res)
    return res


def small_range(o):
    """K <= 128 with 0 <= o < K known, else None (o symbolic)."""
    if isinstance(o, SymBool):
        return 2
    mr = getattr(o, "modrange", None)
    if mr is not None:
        return mr if mr <= 128 else None
    c = ctx()
    r, _ = c.check(z3.Not(z3.And(o.e >= 0, o.e < 128)), timeout=500)
    if r != z3.unsat:
        o.modrange = 1 << 30
        return None
    for K in (8, 16, 32, 64):
        r, _ = c.check(z3.Not(z3.And(o.e >= 0, o.e < K)), timeout=500)
        if r == z3.unsat:
            o.modrange = K
            return K
    o.modrange = 128
    return 128


def chain(eo, K, fn):
    """If-chain  fn(k) for eo == k, k in range(K)  (eo known to be in range(K))."""
    e = fn(K - 1)
    for k in range(K - 2, -1, -1):
        e = z3.If(eo == k, fn(k), e)
    return e


def parts_of(x):
    """Bit-slice decomposition of a non-negative value, or None.

    A part is (lo, w, base, off, top): bits [lo, lo+w) of the value are bits
    [off, off+w) of `base`; top means base has no bit at or above off+w.  The
    value is the sum over parts of part_expr * 2**lo."""
    if isinstance(x, bool):
        x = int(x)
    if isinstance(x, int):
        if x < 0:
            return None
        return [(lo, w, z3.IntVal((x >> lo) & ((1 << w) - 1)), 0, True) for lo, w in _mask_runs(x)]
    if isinstance(x, SymBool):
        return [(0, 1, as_z3_int(x), 0, True)]
    p = x.parts
    if p is not None:
        return p
    kb = x.kb
    if kb is not None and kb > 0 and kb & (kb + 1) == 0:
        return [(0, kb.bit_length(), x.e, 0, True)]
    return None


def part_expr(p):
    lo, w, base, off, top = p
    t = div_pow2(base, off)
    if not top:
        t = t % z3.IntVal(1 << w)
    return t


def from_parts(parts):
    parts = sorted((p for p in parts if p[1] > 0), key=lambda p: p[0])
    if not parts:
        return 0
    # merge consecutive slices of the same base
    merged = [parts[0]]
    for p in parts[1:]:
        q = merged[-1]
        if (not q[4]) and p[0] == q[0] + q[1] and p[3] == q[3] + q[1] and p[2].get_id() == q[2].get_id():
            merged[-1] = (q[0], q[1] + p[1], q[2], q[3], p[4])
        else:
            merged.append(p)
    parts = merged
    terms = []
    kb = 0
    for p in parts:
        e = part_expr(p)
        terms.append(e * z3.IntVal(1 << p[0]) if p[0] else e)
        kb |= ((1 << p[1]) - 1) << p[0]
    e = terms[0] if len(terms) == 1 else z3.Sum(terms)
    r = mk(e)
    if isinstance(r, SymInt):
        r.parts = parts
        r.kb = kb
    return r


def parts_and(parts, m):
    out = []
    for rlo, rw in _mask_runs(m):
        for lo, w, base, off, top in parts:
            a, b = max(lo, rlo), min(lo + w, rlo + rw)
            if a < b:
                out.append((a, b - a, base, off + (a - lo), top and b == lo + w))
    return out


def parts_shl(parts, c):
    return [(lo + c, w, base, off, top) for lo, w, base, off, top in parts]


def parts_shr(parts, c):
    out = []
    for lo, w, base, off, top in parts:
        if lo >= c:
            out.append((lo - c, w, base, off, top))
        elif lo + w > c:
            out.append((0, lo + w - c, base, off + (c - lo), top))
    return out


def _learn_disjoint(p, q):
    """p has a known-bits mask, q has none: if q == base << s and base provably
    fits the zero gap of p's mask at bit s, annotate q and report disjointness."""
    M = p.kb
    if M is None or getattr(q, "kb", None) is not None or not isinstance(q, SymInt):
        return False
    base, s = q.shl if q.shl is not None else (q, 0)
    if not isinstance(base, SymInt):
        return False
    rest = M >> s
    if rest & 1:
        return False
    if rest == 0:
        g = None
    else:
        g = (rest & -rest).bit_length() - 1
    c = ctx()
    if g is None:
        for cand in (8, 16, 32, 64, 128):
            r, _ = c.check(z3.Not(z3.And(base.e >= 0, base.e < z3.IntVal(1 << cand))), timeout=1500)
            if r == z3.unsat:
                g = cand
                break
        if g is None:
            return False
    else:
        r, _ = c.check(z3.Not(z3.And(base.e >= 0, base.e < z3.IntVal(1 << g))), timeout=1500)
        if r != z3.unsat:
            return False
    q.kb = ((1 << g) - 1) << s
    q.parts = [(s, g, base.e, 0, True)]
    return True


def _assume_signed_range(r, n):
    """a bitwise combination (&, |, ^) of two values of the signed n-bit range lies in that range
    (all bits from n-1 upwards are copies of one bit).  Added as a fact so that the solver need not
    re-derive it from the bit sum."""
    if isinstance(r, SymInt):
        ctx().assume(z3.And(r.e >= -(1 << (n - 1)), r.e < (1 << (n - 1))))


def _assume_kb_range(x):
    """known-bits metadata (every set bit of x lies in x.kb, x >= 0) implies 0 <= x <= x.kb; stated as a
    fact where a reduction `x & mask` / `x % 2^k` is dropped because of it, so that the range the
    dropped reduction made syntactically evident stays available to the solver"""
    if isinstance(x, SymInt) and x.kb is not None:
        ctx().assume(z3.And(x.e >= 0, x.e <= x.kb))


def _signed_width2(a, b):
    if not (isinstance(a, SymInt) and isinstance(b, SymInt)):
        return None
    if getattr(a, "kb", None) is not None or getattr(b, "kb", None) is not None:
        return None
    c = ctx()
    cache = c.ghost.setdefault("swidth_cache", {})
    key = (a.e.get_id(), b.e.get_id())
    hit = cache.get(key)
    if hit is not None and hit[0] == len(c.pc):
        return hit[1]
    res = None
    for cand in (8, 16, 32, 64):
        lo, hi = z3.IntVal(-(1 << (cand - 1))), z3.IntVal(1 << (cand - 1))
        r, _ = c.check(z3.Not(z3.And(a.e >= lo, a.e < hi, b.e >= lo, b.e < hi)), timeout=1500)
        if r == z3.unsat:
            res = cand
            break
    cache[key] = (len(c.pc), res)
    return res


def _and_signed_n(a, b):
    """the signed width n under which `a & b` was bit-blasted (None if another rule applied)"""
    if not (isinstance(a, SymInt) and isinstance(b, SymInt)):
        return None
    d = ctx().ghost.get("and_signed_n", {})
    return d.get((a.e.get_id(), b.e.get_id()), d.get((b.e.get_id(), a.e.get_id())))


def and_sym(a, b):
    """a & b for two symbolic operands (memoised per path: the same operands give the same term)."""
    if isinstance(a, SymInt) and isinstance(b, SymInt):
        memo = ctx().ghost.setdefault("and_memo", {})
        key = (a.e.get_id(), b.e.get_id())
        if key in memo:
            return memo[key]
        r = _and_sym(a, b)
        memo[key] = r
        memo[(key[1], key[0])] = r
        return r
    return _and_sym(a, b)


def _and_sym(a, b):
    c = ctx()
    if isinstance(a, SymInt) and isinstance(b, SymInt):
        if _learn_disjoint(a, b) or _learn_disjoint(b, a):
            return 0
    # rule: b == 2**i with i in a small range:  a & 2**i == bit_i(a) * 2**i
    for p, q in ((a, b), (b, a)):
        K = getattr(q, "smallcount", None)
        if K is not None and q.pow2of is not None and isinstance(p, SymInt):
            ep = p.e
            r = mk(chain(q.pow2of, K, lambda k: ((ep / z3.IntVal(1 << k)) % 2) * z3.IntVal(1 << k)))
            if isinstance(r, SymInt):
                r.width = K
            return r
    # rule: b == t * pow2(s) and 0 <= a < pow2(s)  => 0
    for p, q in ((a, b), (b, a)):
        s = getattr(q, "lowzeros", None)
        if s is not None and isinstance(p, SymInt):
            if c.valid(z3.And(p.e >= 0, p.e < pow2f(s))):
                return 0
        s = getattr(q, "allones", None)
        if s is not None and isinstance(p, SymInt):
            if c.valid(z3.And(p.e >= 0, p.e < pow2f(s))):
                return p
    ka, kbb = getattr(a, "kb", None), getattr(b, "kb", None)
    if ka is not None and kbb is not None and ka & kbb == 0:
        return 0
    wa, wb = width_of(a), width_of(b)
    ws = [w for w in (wa, wb) if w is not None]
    if not ws:
        # both operands possibly negative: if both provably lie in the signed n-bit range, every bit
        # from n-1 upwards equals the sign bit (infinite two's complement), hence
        #   a & b == -(sa*sb) * 2^(n-1) + sum_{i<n-1} bit_i(a)*bit_i(b) * 2^i
        n = _signed_width2(a, b)
        if n is None:
            raise Undecided("bitwise operation on two unbounded symbolic integers")
        ea, eb = a.e, b.e
        terms = []
        for i in range(n - 1):
            ba = div_pow2(ea, i) % 2
            bb = div_pow2(eb, i) % 2
            terms.append(z3.If(z3.And(ba == 1, bb == 1), z3.IntVal(1 << i), z3.IntVal(0)))
        terms.append(z3.If(z3.And(ea < 0, eb < 0), z3.IntVal(-(1 << (n - 1))), z3.IntVal(0)))
        r = mk(z3.Sum(terms))
        _assume_signed_range(r, n)
        c.ghost.setdefault("and_signed_n", {})[(a.e.get_id(), b.e.get_id())] = n
        return r
    k = min(ws)
    if k > MAX_BLAST:
        raise Undecided("bitwise operation wider than %d bits" % MAX_BLAST)
    ea, eb = as_z3_int(a), as_z3_int(b)
    terms = []
    both = (1 << k) - 1
    if ka is not None:
        both &= ka
    if kbb is not None:
        both &= kbb
    for i in range(k):
        if not (both >> i) & 1:
            continue
        ba = div_pow2(ea, i) % 2
        bb = div_pow2(eb, i) % 2
        terms.append(z3.If(z3.And(ba == 1, bb == 1), z3.IntVal(1 << i), z3.IntVal(0)))
    if not terms:
        return 0
    r = mk(z3.Sum(terms) if len(terms) > 1 else terms[0])
    if isinstance(r, SymInt):
        r.kb = both
    return r


# ---------------------------------------------------------------- SymBool

class SymBool:
    __slots__ = ("e",)

    def __init__(self, e):
        self.e = e

    def __bool__(self):
        return ctx().decide(self.e)

    def __invert__(self):   # not python semantics for bool (~True == -2) -- unused
        raise Undecided("~ on symbolic bool")

    def __and__(self, o):
        if isinstance(o, (SymBool, bool)):
            return mkb(z3.And(self.e, as_z3_bool(o)))
        return SymInt(as_z3_int(self)) & o

    __rand__ = __and__

    def __or__(self, o):
        if isinstance(o, (SymBool, bool)):
            return mkb(z3.Or(self.e, as_z3_bool(o)))
        return SymInt(as_z3_int(self)) | o

    __ror__ = __or__

    def __xor__(self, o):
        if isinstance(o, (SymBool, bool)):
            return mkb(z3.Xor(self.e, as_z3_bool(o)))
        return SymInt(as_z3_int(self)) ^ o

    __rxor__ = __xor__

    def __eq__(self, o):
        if isinstance(o, (SymBool, bool)):
            return mkb(self.e == as_z3_bool(o))
        return SymInt(as_z3_int(self)) == o

    def __ne__(self, o):
        r = self.__eq__(o)
        return (not r) if isinstance(r, bool) else mkb(z3.Not(r.e))

    def __hash__(self):
        raise Undecided("hash of symbolic bool")

    def _int(self):
        return SymInt(as_z3_int(self))

    def __add__(self, o): return self._int() + o
    def __radd__(self, o): return o + self._int()
    def __sub__(self, o): return self._int() - o
    def __rsub__(self, o): return o - self._int()
    def __mul__(self, o): return self._int() * o
    def __rmul__(self, o): return o * self._int()
    def __lshift__(self, o): return self._int() << o
    def __lt__(self, o): return self._int() < o
    def __le__(self, o): return self._int() <= o
    def __gt__(self, o): return self._int() > o
    def __ge__(self, o): return self._int() >= o
    def __index__(self): return 1 if bool(self) else 0
    def __int__(self): return 1 if bool(self) else 0

    def __repr__(self):
        return "SymBool(%s)" % self.e


def sym_not(x):
    if isinstance(x, SymBool):
        return mkb(z3.Not(x.e))
    return not x


# ---------------------------------------------------------------- SymInt

class SymInt:
    __slots__ = ("e", "kb", "lowzeros", "allones", "pow2of", "modrange", "smallcount", "parts", "shl")

    def __init__(self, e, width=None):
        self.e = e
        # parts: optional bit-slice decomposition [(lo, w, expr)], disjoint, with
        # value == sum(expr * 2**lo) and 0 <= expr < 2**w (see parts_of/from_parts)
        self.parts = None
        # shl: (base, s) when this value was built as base << s (s concrete)
        self.shl = None
        # kb: known-bits mask -- the value is known to be >= 0 and to have no 1
        # bit outside this mask (None: nothing known).  Maintained by
        # construction; every rule that uses it is exact.
        self.kb = None if width is None else (1 << width) - 1
        self.lowzeros = None
        self.allones = None
        self.pow2of = None
        self.modrange = None
        self.smallcount = None

    def __getattr__(self, name):
        # an int method the proxy does not model: unsupported, not an error
        if name.startswith("_"):
            raise AttributeError(name)
        raise Undecided("int method %r is not modelled" % (name,))

    @property
    def width(self):
        return None if self.kb is None else max(self.kb.bit_length(), 1)

    @width.setter
    def width(self, w):
        self.kb = None if w is None else (1 << w) - 1

    # -- truthiness / conversion
    def __bool__(self):
        return ctx().decide(self.e != 0)

    def __index__(self):
        c = _concrete(self)
        if c is not None:
            return c
        return concretize(self)

    def __int__(self):
        return self.__index__()

    def __float__(self):
        c = _concrete(self)
        if c is not None:
            return float(c)
        raise Undecided("symbolic integer converted to float")

    def __hash__(self):
        c = _concrete(self)
        if c is not None:
            return hash(c)
        raise Undecided("hash of symbolic int")

    def __repr__(self):
        return "SymInt(%s)" % (self.e,)

    __str__ = __repr__

    def __format__(self, spec):
        return "<sym>"

    # -- arithmetic
    def __add__(self, o):
        if isinstance(o, float):
            raise Undecided("int + float")
        if not isinstance(o, (int, SymInt, SymBool)):
            return NotImplemented
        ka, ko = self.kb, self._kb_of(o)
        if ka is not None and ko is not None and ka & ko == 0:
            pa, po = parts_of(self), parts_of(o)
            if pa is not None and po is not None:
                return from_parts(pa + po)
        r = mk(self.e + as_z3_int(o))
        if isinstance(r, SymInt):
            if ka is not None and ko is not None:
                if ka & ko == 0:
                    r.kb = ka | ko
                else:
                    r.kb = (1 << (max(ka, ko).bit_length() + 1)) - 1
        return r

    __radd__ = __add__

    def __sub__(self, o):
        if not isinstance(o, (int, SymInt, SymBool)):
            return NotImplemented
        r = mk(self.e - as_z3_int(o))
        if isinstance(r, SymInt) and self.pow2of is not None and _concrete(o) == 1:
            r.allones = self.pow2of
        return r

    def __rsub__(self, o):
        if not isinstance(o, (int, SymInt, SymBool)):
            return NotImplemented
        return mk(as_z3_int(o) - self.e)

    def __mul__(self, o):
        if isinstance(o, (list, bytes, bytearray, tuple)) and len(o) == 1 and isinstance(o[0], int):
            # [c] * n: a sequence of max(n, 0) copies of the constant c
            return repeat_seq(o[0], self, type(o).__name__)
        if not isinstance(o, (int, SymInt, SymBool)):
            return NotImplemented
        co = _concrete(o)
        if co is not None and co > 0 and co & (co - 1) == 0 and parts_of(self) is not None:
            return self << (co.bit_length() - 1)
        return mk(self.e * as_z3_int(o))

    __rmul__ = __mul__

    def __neg__(self):
        return mk(-self.e)

    def __pos__(self):
        return self

    def __abs__(self):
        return mk(z3.If(self.e >= 0, self.e, -self.e))

    def __invert__(self):
        return mk(-self.e - 1)

    def _divcheck(self, o):
        co = _concrete(o)
        if co is not None:
            if co == 0:
                raise ZeroDivisionError("integer division or modulo by zero")
            return co
        eo = as_z3_int(o)
        if ctx().decide(eo == 0):
            raise ZeroDivisionError("integer division or modulo by zero")
        return eo

    def __floordiv__(self, o):
        if not isinstance(o, (int, SymInt, SymBool)):
            return NotImplemented
        d = self._divcheck(o)
        if isinstance(d, int) and d > 0 and d & (d - 1) == 0:
            r = mk(div_pow2(self.e, d.bit_length() - 1))
            if isinstance(r, SymInt) and self.kb is not None:
                r.kb = self.kb >> (d.bit_length() - 1)
            return r
        return mk(floordiv_z3(self.e, d))

    def __rfloordiv__(self, o):
        if not isinstance(o, (int, SymInt, SymBool)):
            return NotImplemented
        return SymInt(as_z3_int(o)).__floordiv__(self)

    def __mod__(self, o):
        if not isinstance(o, (int, SymInt, SymBool)):
            return NotImplemented
        d = self._divcheck(o)
        if isinstance(d, int) and d > 0:
            # 0 <= self < d already known from the proxy's metadata (as `self & (d - 1)` does): the value itself
            w = getattr(self, "width", None)
            if w is not None and (1 << w) <= d:
                if not z3.is_const(self.e):
                    ctx().assume(z3.And(self.e >= 0, self.e < (1 << w)))   # what `width` records (see width_of / mkw)
                return self
            if self.kb is not None and self.kb < d:
                _assume_kb_range(self)
                return self
        r = mk(mod_z3(self.e, d))
        if isinstance(r, SymInt) and isinstance(d, int) and d > 0:
            r.kb = (1 << max((d - 1).bit_length(), 1)) - 1
            if d & (d - 1) == 0 and self.kb is not None:
                r.kb = self.kb & (d - 1)
            r.modrange = d
        return r

    def __rmod__(self, o):
        if not isinstance(o, (int, SymInt, SymBool)):
            return NotImplemented
        return SymInt(as_z3_int(o)).__mod__(self)

    def __divmod__(self, o):
        return (self // o, self % o)

    def __truediv__(self, o):
        raise Undecided("true division of symbolic ints")

    def __pow__(self, o, mod=None):
        co = _concrete(o)
        if co is not None and mod is None and 0 <= co <= 8:
            r = 1
            for _ in range(co):
                r = self * r
            return r
        raise Undecided("symbolic power")

    def __rpow__(self, o):
        if o == 2:
            return SymInt(z3.IntVal(1)).__lshift__(self)
        raise Undecided("symbolic exponent with base %r" % (o,))

    # -- shifts
    def __lshift__(self, o):
        co = _concrete(o)
        if co is None and isinstance(o, (SymInt, SymBool)):
            eo = as_z3_int(o)
            if ctx().decide(eo < 0):
                raise ValueError("negative shift count")
            co = fork_value(o)
        if co is not None:
            if co < 0:
                raise ValueError("negative shift count")
            pa = parts_of(self)
            if pa is not None:
                return from_parts(parts_shl(pa, co))
            r = mk(self.e * z3.IntVal(1 << co))
            if isinstance(r, SymInt):
                if self.kb is not None:
                    r.kb = self.kb << co
                else:
                    r.shl = (self, co) if self.shl is None else (self.shl[0], self.shl[1] + co)
            return r
        if not isinstance(o, (SymInt, SymBool)):
            return NotImplemented
        r = mk(self.e * pow2f(eo))
        if isinstance(r, SymInt):
            r.lowzeros = eo
        return r

    def __rlshift__(self, o):
        if not isinstance(o, int):
            return NotImplemented
        eo = self.e
        if ctx().decide(eo < 0):
            raise ValueError("negative shift count")
        co = fork_value(self)
        if co is not None:
            return o << co
        r = mk(z3.IntVal(o) * pow2f(eo))
        if isinstance(r, SymInt):
            r.lowzeros = eo
            if o == 1:
                r.pow2of = eo
        return r

    def __rshift__(self, o):
        co = _concrete(o)
        if co is None and isinstance(o, (SymInt, SymBool)):
            eo = as_z3_int(o)
            if ctx().decide(eo < 0):
                raise ValueError("negative shift count")
            co = fork_value(o)
        if co is not None:
            if co < 0:
                raise ValueError("negative shift count")
            pa = parts_of(self)
            if pa is not None:
                return from_parts(parts_shr(pa, co))
            r = mk(div_pow2(self.e, co))
            if isinstance(r, SymInt) and self.kb is not None:
                r.kb = self.kb >> co
            return r
        if not isinstance(o, (SymInt, SymBool)):
            return NotImplemented
        return mk(self.e / pow2f(eo))

    def __rrshift__(self, o):
        if not isinstance(o, int):
            return NotImplemented
        eo = self.e
        if ctx().decide(eo < 0):
            raise ValueError("negative shift count")
        co = fork_value(self)
        if co is not None:
            return o >> co
        return mk(z3.IntVal(o) / pow2f(eo))

    # -- bitwise
    def __and__(self, o):
        co = _concrete(o)
        if co is not None:
            pa = parts_of(self)
            if pa is not None:
                if co < 0:
                    co = co & self.kb
                return from_parts(parts_and(pa, co & self.kb))
            if co >= 0 and self.kb is not None:
                if co & self.kb == self.kb:
                    _assume_kb_range(self)
                    return self           # every possibly-set bit of self (kb) is kept by the mask
                co = co & self.kb
            r = mk(and_const_z3(self.e, co))
            if isinstance(r, SymInt) and co >= 0:
                r.kb = co
            return r
        if not isinstance(o, (SymInt, SymBool)):
            return NotImplemented
        if isinstance(o, SymBool):
            o = o._int()
            o.kb = 1
        return and_sym(self, o)

    __rand__ = __and__

    def _kb_of(self, o):
        if isinstance(o, bool):
            return int(o)
        if isinstance(o, int):
            return o if o >= 0 else None
        if isinstance(o, SymBool):
            return 1
        return getattr(o, "kb", None)

    def __or__(self, o):
        if not isinstance(o, (int, SymInt, SymBool)):
            return NotImplemented
        a = self & o
        if isinstance(a, int) and a == 0:
            return self + o
        r = self + o - a
        if isinstance(r, SymInt):
            ka, ko = self.kb, self._kb_of(o)
            if ka is not None and ko is not None:
                r.kb = ka | ko
            else:
                n = _and_signed_n(self, o)
                if n is not None:
                    _assume_signed_range(r, n)
        return r

    __ror__ = __or__

    def __xor__(self, o):
        if not isinstance(o, (int, SymInt, SymBool)):
            return NotImplemented
        a = self & o
        if isinstance(a, int) and a == 0:
            return self + o
        r = self + o - 2 * a
        if isinstance(r, SymInt):
            ka, ko = self.kb, self._kb_of(o)
            if ka is not None and ko is not None:
                r.kb = ka | ko
            else:
                n = _and_signed_n(self, o)
                if n is not None:
                    _assume_signed_range(r, n)
        return r

    __rxor__ = __xor__

    # -- comparisons
    def _cmp(self, o, f):
        if isinstance(o, float):
            raise Undecided("int/float comparison")
        if not isinstance(o, (int, SymInt, SymBool)):
            return NotImplemented
        return mkb(f(self.e, as_z3_int(o)))

    def __eq__(self, o):
        if o is None or isinstance(o, (str, bytes, tuple, list)):
            return False
        return self._cmp(o, lambda a, b: a == b)

    def __ne__(self, o):
        if o is None or isinstance(o, (str, bytes, tuple, list)):
            return True
        return self._cmp(o, lambda a, b: a != b)

    def __lt__(self, o): return self._cmp(o, lambda a, b: a < b)
    def __le__(self, o): return self._cmp(o, lambda a, b: a <= b)
    def __gt__(self, o): return self._cmp(o, lambda a, b: a > b)
    def __ge__(self, o): return self._cmp(o, lambda a, b: a >= b)

    # -- int methods
    def bit_length(self):
        w = width_of(abs(self)) if True else None
        a = abs(self)
        ea = as_z3_int(a)
        if w is not None and w <= MAX_BLAST:
            return mk(z3.Sum([z3.If(ea >= z3.IntVal(1 << i), z3.IntVal(1), z3.IntVal(0))
                              for i in range(w)]) if w else z3.IntVal(0))
        c = ctx()
        L = z3.Int(c.fresh_name("bitlen"))
        c.assume(z3.If(ea == 0, L == 0,
                       z3.And(L >= 1, pow2f(L - 1) <= ea, ea < pow2f(L))))
        return SymInt(L)

    def to_bytes(self, length, byteorder="big", signed=False):
        n = _concrete(length)
        if n is None:
            raise Undecided("to_bytes with symbolic length")
        v = self
        if signed:
            lo, hi = -(1 << (8 * n - 1)), (1 << (8 * n - 1))
        else:
            lo, hi = 0, 1 << (8 * n)
        if not bool((v >= lo) & (v < hi)):
            raise OverflowError("int too big to convert")
        if signed:
            v = v % (1 << (8 * n))
        bs = [(v >> (8 * i)) & 0xFF for i in range(n)]
        if byteorder == "big":
            bs.reverse()
        return SymSeq.from_list(bs, kind="bytes")


def concretize(x):
    """If the path condition pins x to a single value, return it; else fork over
    nothing -- symbolic values used as indices are unsupported."""
    c = ctx()
    r, s = c.check()
    if r == z3.sat:
        v = s.model().eval(x.e, model_completion=True)
        if z3.is_int_value(v) and c.valid(x.e == v):
            return v.as_long()
    raise Undecided("symbolic integer used where a concrete one is required")


# ---------------------------------------------------------------- SymSeq

ISeq = z3.SeqSort(z3.IntSort())


def empty_seq():
    return z3.Empty(ISeq)


def repeat_seq(value, n, kind="list"):
    """a sequence of max(n, 0) copies of the concrete integer `value` (n symbolic): a fresh sequence
    constant constrained by its length and by every element being `value`"""
    c = ctx()
    z = z3.Const(c.fresh_name("rep"), ISeq)
    j = z3.Int(c.fresh_name("rj"))
    ne = as_z3_int(n)
    c.assume(z3.Length(z) == z3.If(ne > 0, ne, z3.IntVal(0)))
    c.assume(z3.ForAll([j], z3.Implies(z3.And(j >= 0, j < z3.Length(z)), z[j] == value)))
    c.ghost.setdefault("rep_consts", {})[z.get_id()] = value      # lets spec.seq_at answer element queries without the quantifier
    return SymSeq(z, kind, (value, value + 1))


class SymSeq:
    """A sequence of integers with symbolic length (z3 Seq(Int)).

    kind: 'list', 'bytes', 'bytearray', 'tuple'.  Mutable kinds are updated in
    place by replacing the wrapped expression.
    """

    def __init__(self, e, kind="list", elem_bounds=None):
        self.e = e
        self.kind = kind
        # meta-level invariant: every element x satisfies lo <= x < hi.  It is
        # maintained by construction (append proves it or drops it) and may be
        # declared for havocked sequences, where it is part of the loop
        # invariant and re-established by the preserve check.
        self.elem_bounds = elem_bounds

    @staticmethod
    def from_list(items, kind="list"):
        if not items:
            return SymSeq(empty_seq(), kind, (0, 1) if False else None)
        units = [z3.Unit(as_z3_int(remember(x))) for x in items]
        e = units[0] if len(units) == 1 else z3.Concat(*units)
        r = SymSeq(e, kind)
        cs = [_concrete(x) for x in items]
        if all(c is not None for c in cs):
            r.elem_bounds = (min(cs), max(cs) + 1)
        return r

    def _elem_ok(self, x, bounds):
        lo, hi = bounds
        c = _concrete(x)
        if c is not None:
            return lo <= c < hi
        ex = as_z3_int(x)
        return ctx().valid(z3.And(ex >= lo, ex < hi))

    def _join_bounds(self, x):
        """elem_bounds after adding element x."""
        if self.is_empty_const():
            c = _concrete(x)
            if c is not None:
                return (c, c + 1)
            w = getattr(x, "width", None)
            if w is not None:
                return (0, 1 << w)
            return None
        b = self.elem_bounds
        if b is None:
            return None
        if self._elem_ok(x, b):
            return b
        c = _concrete(x)
        if c is not None:
            return (min(b[0], c), max(b[1], c + 1))
        w = getattr(x, "width", None)
        if w is not None and b[0] >= 0:
            nb = (0, max(b[1], 1 << w))
            if self._elem_ok(x, nb):
                return nb
        return None

    def is_empty_const(self):
        e = z3.simplify(self.e)
        return z3.is_app(e) and e.decl().kind() == z3.Z3_OP_SEQ_EMPTY

    def bounds_within(self, lo, hi):
        b = self.elem_bounds
        if self.is_empty_const():
            return True
        return b is not None and lo <= b[0] and b[1] <= hi

    @staticmethod
    def lift(x, kind=None):
        if isinstance(x, SymSeq):
            return x
        if isinstance(x, (list, tuple, bytes, bytearray)):
            k = kind or type(x).__name__
            return SymSeq.from_list(list(x), k)
        raise Undecided("cannot lift %r to a sequence" % (type(x),))

    def _len(self):
        return mk(z3.Length(self.e))

    def __len__(self):
        n = self._len()
        if isinstance(n, int):
            return n
        return concretize(n)

    def __bool__(self):
        return ctx().decide(z3.Length(self.e) > 0)

    def append(self, x):
        assert self.kind in ("list", "bytearray")
        if self.kind == "bytearray":
            if not bool((x >= 0) & (x < 256)):
                raise ValueError("byte must be in range(0, 256)")
        self.elem_bounds = self._join_bounds(x)
        self.e = z3.Concat(self.e, z3.Unit(as_z3_int(remember(x))))

    def _concat_bounds(self, o):
        if self.is_empty_const():
            return o.elem_bounds
        if o.is_empty_const():
            return self.elem_bounds
        a, b = self.elem_bounds, o.elem_bounds
        if a is None or b is None:
            return None
        return (min(a[0], b[0]), max(a[1], b[1]))

    def extend(self, other):
        o = SymSeq.lift(other)
        self.elem_bounds = self._concat_bounds(o)
        self.e = z3.Concat(self.e, o.e)

    def __iadd__(self, other):
        if self.kind in ("list", "bytearray"):
            self.extend(other)
            return self
        return self + other

    def __add__(self, o):
        if not isinstance(o, (SymSeq, list, tuple, bytes, bytearray)):
            return NotImplemented
        o = SymSeq.lift(o)
        return SymSeq(z3.simplify(z3.Concat(self.e, o.e)), self.kind, self._concat_bounds(o))

    def __radd__(self, o):
        if not isinstance(o, (list, tuple, bytes, bytearray)):
            return NotImplemented
        k = type(o).__name__
        o = SymSeq.lift(o)
        return SymSeq(z3.simplify(z3.Concat(o.e, self.e)), k, o._concat_bounds(self))

    def __eq__(self, o):
        if isinstance(o, (SymSeq, list, tuple, bytes, bytearray)):
            o = SymSeq.lift(o)
            return mkb(self.e == o.e)
        return False

    def __ne__(self, o):
        return sym_not(self.__eq__(o))

    __hash__ = None

    def __getattr__(self, name):
        # a bytes/list method the proxy does not model: unsupported, not an error
        if name.startswith("__"):
            raise AttributeError(name)
        raise Undecided("sequence method %r is not modelled" % (name,))

    def _parts(self):
        """flattened children of a concatenation: [(expr, unit_arg or None)]"""
        out = []

        def walk(e):
            if z3.is_app(e) and e.decl().kind() == z3.Z3_OP_SEQ_CONCAT:
                for ch in e.children():
                    walk(ch)
            elif z3.is_app(e) and e.decl().kind() == z3.Z3_OP_SEQ_UNIT:
                out.append((e, e.arg(0)))
            elif z3.is_app(e) and e.decl().kind() == z3.Z3_OP_SEQ_EMPTY:
                pass
            else:
                out.append((e, None))
        walk(self.e)
        return out

    def _syntactic(self, i):
        """Exact syntactic answer for concrete indices/slices that fall into the
        leading / trailing unit elements of a concatenation (None if not applicable)."""
        parts = self._parts()
        if not parts:
            return None
        lead = 0
        while lead < len(parts) and parts[lead][1] is not None:
            lead += 1
        trail = 0
        while trail < len(parts) - lead and parts[len(parts) - 1 - trail][1] is not None:
            trail += 1
        allunits = lead == len(parts)

        def build(ps):
            if not ps:
                return SymSeq(empty_seq(), self.kind, self.elem_bounds)
            e = ps[0][0] if len(ps) == 1 else z3.Concat(*[p[0] for p in ps])
            return SymSeq(e, self.kind, self.elem_bounds)
        if isinstance(i, slice):
            if i.step is not None:
                return None
            a, b = i.start, i.stop
            a = 0 if a is None else _concrete(a)
            if a is None:
                return None
            if allunits:
                bb = len(parts) if b is None else _concrete(b)
                if bb is None:
                    return None
                return build(parts[slice(a, bb)])
            if a < 0 or a > lead:
                return None
            if b is None:
                return build(parts[a:])
            bb = _concrete(b)
            if bb is None:
                return None
            if 0 <= bb <= lead:
                return build(parts[a:bb]) if bb >= a else build([])
            if bb < 0 and -bb <= trail:
                return build(parts[a:len(parts) + bb])
            return None
        ci = _concrete(i)
        if ci is None:
            return None
        if allunits:
            if -len(parts) <= ci < len(parts):
                return ("item", parts[ci][1])
            return None
        if 0 <= ci < lead:
            return ("item", parts[ci][1])
        if ci < 0 and -ci <= trail:
            return ("item", parts[len(parts) + ci][1])
        return None

    def __getitem__(self, i):
        syn = self._syntactic(i)
        if isinstance(syn, SymSeq):
            return syn
        if isinstance(syn, tuple):
            r = mk_item(syn[1])
            self._assume_elem(r)
            return r
        if isinstance(i, slice):
            if i.step is not None:
                raise Undecided("slice step on symbolic sequence")
            n = z3.Length(self.e)

            def norm(v, dflt):
                if v is None:
                    return dflt
                ev = as_z3_int(v)
                ev = z3.If(ev < 0, ev + n, ev)
                return z3.If(ev < 0, z3.IntVal(0), z3.If(ev > n, n, ev))
            a = norm(i.start, z3.IntVal(0))
            b = norm(i.stop, n)
            ln = z3.If(b > a, b - a, z3.IntVal(0))
            return SymSeq(z3.simplify(z3.SubSeq(self.e, a, ln)), self.kind, self.elem_bounds)
        ei = as_z3_int(i)
        n = z3.Length(self.e)
        c = ctx()
        if c.decide(ei < 0):
            ei = ei + n
        if not c.decide(z3.And(ei >= 0, ei < n)):
            raise IndexError("index out of range")
        r = mk(self.e[ei])
        self._assume_elem(r)
        return r

    def _assume_elem(self, r):
        if isinstance(r, SymInt) and self.elem_bounds is not None:
            lo, hi = self.elem_bounds
            ctx().assume(z3.And(r.e >= lo, r.e < hi))
            if lo >= 0:
                r.width = max((hi - 1).bit_length(), 1)

    def __setitem__(self, i, v):
        assert self.kind in ("list", "bytearray")
        if isinstance(i, slice):
            if i.step is not None:
                raise Undecided("slice assignment with a step on symbolic sequence")
            n = z3.Length(self.e)

            def norm(x, dflt):
                if x is None:
                    return dflt
                ex = as_z3_int(x)
                ex = z3.If(ex < 0, ex + n, ex)
                return z3.If(ex < 0, z3.IntVal(0), z3.If(ex > n, n, ex))
            a = norm(i.start, z3.IntVal(0))
            b = norm(i.stop, n)
            b = z3.If(b < a, a, b)       # CPython: an empty slice inserts at `start`
            vs = SymSeq.lift(v)
            if self.kind == "bytearray" and not vs.bounds_within(0, 256):
                raise Undecided("slice assignment of values not known to be bytes")
            self.elem_bounds = self._concat_bounds(vs)
            self.e = z3.simplify(z3.Concat(z3.SubSeq(self.e, 0, a), vs.e, z3.SubSeq(self.e, b, n - b)))
            return
        ei = as_z3_int(i)
        n = z3.Length(self.e)
        c = ctx()
        if c.decide(ei < 0):
            ei = ei + n
        if not c.decide(z3.And(ei >= 0, ei < n)):
            raise IndexError("assignment index out of range")
        if self.kind == "bytearray":
            if not bool((v >= 0) & (v < 256)):
                raise ValueError("byte must be in range(0, 256)")
        self.elem_bounds = self._join_bounds(v)
        self.e = z3.Concat(z3.SubSeq(self.e, 0, ei), z3.Unit(as_z3_int(v)),
                           z3.SubSeq(self.e, ei + 1, n - ei - 1))

    def __delitem__(self, i):
        assert self.kind in ("list", "bytearray")
        n = z3.Length(self.e)
        if isinstance(i, slice):
            if i.step is not None:
                raise Undecided("del with a slice step on symbolic sequence")

            def norm(x, dflt):
                if x is None:
                    return dflt
                ex = as_z3_int(x)
                ex = z3.If(ex < 0, ex + n, ex)
                return z3.If(ex < 0, z3.IntVal(0), z3.If(ex > n, n, ex))
            a = norm(i.start, z3.IntVal(0))
            b = norm(i.stop, n)
            b = z3.If(b < a, a, b)
            self.e = z3.simplify(z3.Concat(z3.SubSeq(self.e, 0, a), z3.SubSeq(self.e, b, n - b)))
            return
        self.pop(i)

    def pop(self, i=-1):
        assert self.kind in ("list", "bytearray")
        ei = as_z3_int(i)
        n = z3.Length(self.e)
        c = ctx()
        if c.decide(ei < 0):
            ei = ei + n
        if not c.decide(z3.And(ei >= 0, ei < n)):
            raise IndexError("pop index out of range")
        r = mk(self.e[ei])
        self._assume_elem(r)
        self.e = z3.simplify(z3.Concat(z3.SubSeq(self.e, 0, ei), z3.SubSeq(self.e, ei + 1, n - ei - 1)))
        return r

    def __iter__(self):
        parts = self._parts()
        if all(u is not None for _, u in parts):
            return iter([self[i] for i in range(len(parts))])
        return SymIter(self)

    def __repr__(self):
        return "SymSeq[%s](%s)" % (self.kind, self.e)

    def hex(self):
        raise Undecided("hex() of symbolic bytes")


class SymIter:
    """Iterator over a sequence of ints, represented by the sequence of items
    still to be delivered (`rem`).  next() splits  rem == [h] ++ t  with fresh
    h, t (word equations with unit heads are what z3's sequence solver does
    well; positions + extract are not)."""

    def __init__(self, seq, pos=0):
        if pos != 0:
            seq = seq[pos:]
        self.rem = seq.e
        self.kind = seq.kind
        self.elem_bounds = seq.elem_bounds

    def __iter__(self):
        return self

    def __next__(self):
        c = ctx()
        if not c.decide(z3.Length(self.rem) > 0):
            raise StopIteration
        h = z3.Int(c.fresh_name("hd"))
        t = z3.Const(c.fresh_name("tl"), ISeq)
        c.assume(self.rem == z3.Concat(z3.Unit(h), t))
        self.rem = t
        v = SymInt(h)
        if self.elem_bounds is not None:
            lo, hi = self.elem_bounds
            c.assume(z3.And(h >= lo, h < hi))
            if lo >= 0:
                v.width = max((hi - 1).bit_length(), 1)
        return v

    def remaining(self):
        return SymSeq(self.rem, self.kind, self.elem_bounds)

    def copy(self):
        r = SymIter.__new__(SymIter)
        r.rem, r.kind, r.elem_bounds = self.rem, self.kind, self.elem_bounds
        return r
