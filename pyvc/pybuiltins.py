"""Proxy-aware replacements for builtins that CPython will not dispatch to proxies.

They are installed as *module globals* of the repo module under verification
(module globals shadow builtins), in the checker process only.  For concrete
arguments each delegates to the real builtin.
"""
import builtins as _b
import z3
from . import sym as S
from .sym import SymInt, SymBool, SymSeq, SymIter, Undecided, is_sym, ctx, mk, mkb


def _anysym(*xs):
    for x in xs:
        if isinstance(x, (SymInt, SymBool, SymSeq, SymIter, SymRange)):
            return True
    return False


class SymRange:
    """range() that answers `in`, len and iteration for symbolic operands."""

    def __init__(self, *a):
        if len(a) == 1:
            self.start, self.stop, self.step = 0, a[0], 1
        elif len(a) == 2:
            self.start, self.stop, self.step = a[0], a[1], 1
        else:
            self.start, self.stop, self.step = a
        for v in (self.start, self.stop, self.step):
            if not isinstance(v, (int, SymInt, SymBool)):
                raise TypeError("range argument must be int")
        cs = S._concrete(self.step)
        if cs is None:
            raise Undecided("symbolic range step")
        self.step = cs
        if cs == 0:
            raise ValueError("range() arg 3 must not be zero")

    def _concrete_range(self):
        a, b = S._concrete(self.start), S._concrete(self.stop)
        if a is not None and b is not None:
            return _b.range(a, b, self.step)
        return None

    def __contains__(self, x):
        r = self._concrete_range()
        if r is not None and not is_sym(x):
            return x in r
        if isinstance(x, (float, str, bytes)) or x is None:
            return False
        ex, a, b = S.as_z3_int(x), S.as_z3_int(self.start), S.as_z3_int(self.stop)
        st = self.step
        if st > 0:
            cond = z3.And(ex >= a, ex < b)
        else:
            cond = z3.And(ex <= a, ex > b)
        if abs(st) != 1:
            cond = z3.And(cond, (ex - a) % abs(st) == 0)
        return bool(mkb(cond))

    def __len__(self):
        r = self._concrete_range()
        if r is not None:
            return len(r)
        raise Undecided("len of symbolic range")

    def __iter__(self):
        r = self._concrete_range()
        if r is not None:
            return iter(r)
        return _SymRangeIter(self)

    def __reversed__(self):
        r = self._concrete_range()
        if r is not None:
            return reversed(r)
        raise Undecided("reversed symbolic range")

    def __getitem__(self, i):
        r = self._concrete_range()
        if r is not None:
            return r[i]
        raise Undecided("index symbolic range")


class _SymRangeIter:
    def __init__(self, r):
        self.r = r
        self.cur = r.start

    def __iter__(self):
        return self

    def __next__(self):
        st = self.r.step
        cond = (self.cur < self.r.stop) if st > 0 else (self.cur > self.r.stop)
        if not bool(cond):
            raise StopIteration
        v = self.cur
        self.cur = self.cur + st
        return v


def sym_len(x):
    if isinstance(x, SymSeq):
        return x._len()
    f = getattr(x, "_sym_len", None)       # other proxies with a symbolic length (e.g. models.SymPairSeq)
    if f is not None:
        return f()
    return _b.len(x)


_TYPEMAP = {}


class _IntMeta(type):
    def __instancecheck__(cls, obj):
        return isinstance(obj, (_b.int, SymInt, SymBool))

    def __eq__(cls, other):
        return other is cls or other is _b.int

    def __hash__(cls):
        return hash(_b.int)


class sym_int(metaclass=_IntMeta):
    def __new__(cls, x=0, base=None):
        if base is not None:
            if is_sym(x):
                raise Undecided("int(symbolic, base)")
            if base == 16 and isinstance(x, _b.str) and x.startswith("\x01HD") and x.endswith("\x02") and S.active():
                return ctx().ghost["hexdigits"][_b.int(x[3:-1])]      # digits token produced by sym_hex
            return _b.int(x, base)
        if isinstance(x, SymInt):
            return x
        if isinstance(x, SymBool):
            return x._int()
        from .symfloat import SymFloat
        if isinstance(x, SymFloat):
            return x.to_int("trunc")
        return _b.int(x)

    from_bytes = staticmethod(lambda *a, **k: _from_bytes(*a, **k))


def _from_bytes(data, byteorder="big", signed=False):
    if not isinstance(data, SymSeq):
        if _anysym(*list(data)):
            data = SymSeq.from_list(list(data), "bytes")
        else:
            return _b.int.from_bytes(data, byteorder, signed=signed)
    n = len(data)
    items = [data[i] for i in _b.range(n)]
    if byteorder == "big":
        items.reverse()
    v = 0
    for i, b in enumerate(items):
        v = v + b * (1 << (8 * i))
    if signed and n:
        top = 1 << (8 * n - 1)
        if bool(v >= top):
            v = v - (1 << (8 * n))
    return v


class _BoolMeta(type):
    def __instancecheck__(cls, obj):
        return isinstance(obj, (_b.bool, SymBool))


class sym_bool(metaclass=_BoolMeta):
    def __new__(cls, x=False):
        if isinstance(x, SymBool):
            return x
        if isinstance(x, SymInt):
            return mkb(x.e != 0)
        if isinstance(x, SymSeq):
            return mkb(z3.Length(x.e) > 0)
        return _b.bool(x)


def _mk_seq_type(kind, real):
    class _Meta(type):
        def __instancecheck__(cls, obj):
            if isinstance(obj, SymSeq):
                return obj.kind == kind
            return isinstance(obj, real)

    def _new(cls, x=(), *a):
        if isinstance(x, SymSeq):
            r = SymSeq(x.e, kind, x.elem_bounds)
            if kind in ("bytes", "bytearray") and x.kind not in ("bytes", "bytearray"):
                _check_bytes_range(r)
            return r
        if isinstance(x, (SymInt,)):
            if kind in ("bytes", "bytearray"):
                if not bool(x >= 0):
                    raise ValueError("negative count")
                return S.repeat_seq(0, x, kind)        # bytes(n): n zero bytes
            raise Undecided("%s(symbolic length)" % kind)
        if kind == "bytearray" and not a and isinstance(x, _b.tuple) and len(x) == 0 and S.active():
            # bytearray(): a fresh, empty, mutable byte sequence (proxy, so that symbolic bytes can be appended)
            return SymSeq(S.empty_seq(), "bytearray", None)
        if isinstance(x, (_b.list, _b.tuple)) and _anysym(*x):
            if kind in ("bytes", "bytearray"):
                for v in x:
                    if not bool((v >= 0) & (v < 256)):
                        raise ValueError("bytes must be in range(0, 256)")
            return SymSeq.from_list(_b.list(x), kind)
        if hasattr(x, "__iter__") and not isinstance(x, (_b.bytes, _b.bytearray, _b.list, _b.tuple, _b.str, _b.int)):
            items = _b.list(x)
            return _new(cls, items, *a)
        return real(x, *a)
    ns = {"__new__": _new}
    if kind in ("bytes", "bytearray"):
        def _fromhex(text, real=real):
            # hex text carrying abstract tokens (models.hexlify): the bytes the tokens stand for (T4 inverse pair)
            if isinstance(text, _b.str) and "\x01HEX" in text:
                from . import models as _MD
                r = _MD.unhex_text(text)
                return SymSeq(r.e, kind, r.elem_bounds) if isinstance(r, SymSeq) else real(r)
            return real.fromhex(text)
        ns["fromhex"] = staticmethod(_fromhex)
    return _Meta("sym_" + kind, (), ns)


def _check_bytes_range(seq):
    """bytes(seq): ValueError iff some element is outside range(256)."""
    if seq.bounds_within(0, 256):
        return
    c = ctx()
    i = z3.Int(c.fresh_name("bi"))
    j = z3.Int(c.fresh_name("bj"))
    bad = z3.And(i >= 0, i < z3.Length(seq.e), z3.Or(seq.e[i] < 0, seq.e[i] > 255))
    good = z3.ForAll([j], z3.Implies(z3.And(j >= 0, j < z3.Length(seq.e)),
                                     z3.And(seq.e[j] >= 0, seq.e[j] <= 255)))
    if c.split(bad, good):
        raise ValueError("bytes must be in range(0, 256)")
    seq.elem_bounds = (0, 256)


sym_bytes = _mk_seq_type("bytes", _b.bytes)
sym_bytearray = _mk_seq_type("bytearray", _b.bytearray)
sym_list = _mk_seq_type("list", _b.list)
sym_tuple = _mk_seq_type("tuple", _b.tuple)


def sym_isinstance(obj, cls):
    if isinstance(cls, _b.tuple):
        return any(sym_isinstance(obj, c) for c in cls)
    if cls is _b.int or cls is sym_int:
        return isinstance(obj, (_b.int, SymInt, SymBool))
    if cls is _b.bool or cls is sym_bool:
        return isinstance(obj, (_b.bool, SymBool))
    if cls is _b.float or getattr(cls, "__name__", "") == "_sym_float":
        from .symfloat import SymFloat
        return isinstance(obj, (_b.float, SymFloat))
    for kind, real, symt in (("bytes", _b.bytes, sym_bytes), ("bytearray", _b.bytearray, sym_bytearray),
                             ("list", _b.list, sym_list), ("tuple", _b.tuple, sym_tuple)):
        if cls is real or cls is symt:
            if isinstance(obj, SymSeq):
                return obj.kind == kind
            return isinstance(obj, real)
    return _b.isinstance(obj, cls)


def sym_abs(x):
    return abs(x)


def sym_min(*a, **k):
    if len(a) == 1:
        a = _b.list(a[0])
    if not _anysym(*a) or k:
        return _b.min(*a, **k)
    r = a[0]
    for v in a[1:]:
        r = mk(z3.If(S.as_z3_int(v) < S.as_z3_int(r), S.as_z3_int(v), S.as_z3_int(r)))
    return r


def sym_max(*a, **k):
    if len(a) == 1:
        a = _b.list(a[0])
    if not _anysym(*a) or k:
        return _b.max(*a, **k)
    r = a[0]
    for v in a[1:]:
        r = mk(z3.If(S.as_z3_int(v) > S.as_z3_int(r), S.as_z3_int(v), S.as_z3_int(r)))
    return r


def sym_sum(it, start=0):
    if isinstance(it, SymSeq):
        from .models import seq_sum
        return start + seq_sum(it)
    r = start
    for v in it:
        r = r + v
    return r


def sym_next(it, *default):
    try:
        return it.__next__()
    except StopIteration:
        if default:
            return default[0]
        raise


def sym_iter(x, *a):
    if isinstance(x, SymSeq):
        return SymIter(x)
    return _b.iter(x, *a)


def sym_reversed(x):
    if isinstance(x, SymRange):
        return x.__reversed__()
    if isinstance(x, SymSeq):
        n = S._concrete(x._len())
        if n is None:
            raise Undecided("reversed symbolic sequence of symbolic length")
        return _b.iter([x[i] for i in _b.range(n - 1, -1, -1)])
    return _b.reversed(x)


def sym_hex(x):
    """hex(n) for a symbolic int: '0x' / '-0x' followed by an abstract token standing for the hexadecimal digits of
    |n| (assumed inverse pair hex / int(., 16), T4; see sym_int)"""
    if isinstance(x, SymBool):
        x = x._int()
    if isinstance(x, SymInt):
        c = ctx()
        reg = c.ghost.setdefault("hexdigits", [])
        if bool(x < 0):
            reg.append(-x)
            return "-0x\x01HD%d\x02" % (len(reg) - 1)
        reg.append(x)
        return "0x\x01HD%d\x02" % (len(reg) - 1)
    return _b.hex(x)


def sym_divmod(a, b):
    if _anysym(a, b):
        return (a // b, a % b)
    return _b.divmod(a, b)


def sym_pow(a, b, *m):
    if _anysym(a, b):
        return a ** b
    return _b.pow(a, b, *m)


def sym_type(x, *a):
    if a:
        return _b.type(x, *a)
    if isinstance(x, (SymInt,)):
        return _b.int
    if isinstance(x, SymBool):
        return _b.bool
    if isinstance(x, SymSeq):
        return {"bytes": _b.bytes, "bytearray": _b.bytearray, "list": _b.list, "tuple": _b.tuple}[x.kind]
    return _b.type(x)


def _sym_float(x=0.0):
    from .symfloat import sym_float
    return sym_float(x)


def _sym_round(x, *a):
    from .symfloat import sym_round
    return sym_round(x, *a)


REPLACEMENTS = {
    "range": SymRange,
    "len": sym_len,
    "int": sym_int,
    "bool": sym_bool,
    "bytes": sym_bytes,
    "bytearray": sym_bytearray,
    "isinstance": sym_isinstance,
    "min": sym_min,
    "max": sym_max,
    "sum": sym_sum,
    "next": sym_next,
    "iter": sym_iter,
    "reversed": sym_reversed,
    "hex": sym_hex,
    "divmod": sym_divmod,
    "pow": sym_pow,
    "type": sym_type,
    "float": _sym_float,
    "round": _sym_round,
}


def install(module, extra=None):
    """Shadow builtins with proxy-aware versions in a module's globals.
    Returns an undo function."""
    saved = {}
    missing = object()
    repl = dict(REPLACEMENTS)
    if extra:
        repl.update(extra)
    for k, v in repl.items():
        saved[k] = module.__dict__.get(k, missing)
        module.__dict__[k] = v

    def undo():
        for k, v in saved.items():
            if v is missing:
                module.__dict__.pop(k, None)
            else:
                module.__dict__[k] = v
    return undo
