"""pyvc.engine -- contracts, loop cutting, path exploration, discharge.

The real function objects imported from /repo are executed natively on symbolic
proxies.  Functions whose loops carry an invariant are re-compiled from their
own source (inspect.getsource of the object imported from /repo) after a
mechanical AST rewrite of exactly those loops (loop cutting); nothing else in
the function text is changed.
"""
import ast
import hashlib
import importlib
import inspect
import sys
import textwrap
import time
import traceback
import types

import z3

from . import sym as S
from . import pybuiltins as PB
from .sym import (SymInt, SymBool, SymSeq, SymIter, Ctx, PathEnd, Undecided,
                  set_ctx, ctx, mk, mkb, as_z3_bool, as_z3_int)


import os as _os
_TRACE_OBL = bool(_os.environ.get("PYVC_TRACE_OBL"))

# ------------------------------------------------------------------ env

class Env(dict):
    """Attribute-style dictionary handed to contract lambdas."""

    def __getattr__(self, k):
        try:
            return self[k]
        except KeyError:
            raise AttributeError(k)

    def __setattr__(self, k, v):
        self[k] = v


# ------------------------------------------------------------------ contract objects

class Loop:
    """Contract of one loop (identified by pre-order ordinal in the function)."""

    def __init__(self, havoc, invariant, decreases=None, ghost_init=None,
                 ghost_update=None, ghost_havoc=None, note="", fghost_havoc=None):
        self.havoc = havoc                # {var: kind}
        self.invariant = invariant        # env -> [(name, bool)]
        self.decreases = decreases        # env -> int
        self.ghost_init = ghost_init      # env -> {name: value}
        self.ghost_update = ghost_update  # env -> {name: value}  (end of body)
        self.ghost_havoc = ghost_havoc or {}
        self.fghost_havoc = fghost_havoc or {}   # function-level ghosts havocked at this loop
        self.note = note


class Contract:
    """Contract of one function.  Subclass-free: plain attributes."""

    def __init__(self, target, prop, params=None, make=None, requires=None,
                 raises=(), ensures=None, loops=None, grid=None, modules=(),
                 concrete_cases=(), call=None, known=(), inline=(), label=None,
                 notes="", allow_exceptions=(), replay_args=None, setup=None,
                 sample_inputs=None, on_yield=None, fghost_init=None, always_instrument=False):
        self.target = target
        self.prop = prop
        self.params = params or {}
        self.make = make
        self.requires = requires
        self.raises = list(raises)
        self.ensures = ensures
        self.loops = loops or {}
        self.grid = grid or [{}]
        self.modules = list(modules)
        self.concrete_cases = list(concrete_cases)
        self.call = call
        self.known = list(known)
        self.inline = list(inline)
        self.label = label or target
        self.notes = notes
        self.allow_exceptions = tuple(allow_exceptions)
        self.replay_args = replay_args
        self.setup = setup
        self.sample_inputs = sample_inputs
        self.on_yield = on_yield
        self.fghost_init = fghost_init
        self.always_instrument = always_instrument


def resolve(target):
    modname, qual = target.split(":")
    mod = importlib.import_module(modname)
    obj = mod
    parent = None
    for part in qual.split("."):
        parent = obj
        obj = getattr(obj, part)
    return mod, parent, obj


def source_hash(fn):
    try:
        src = inspect.getsource(fn)
    except (OSError, TypeError):
        return None
    return hashlib.sha256(src.encode()).hexdigest()[:16]


# ------------------------------------------------------------------ symbolic input kinds

def make_value(kind, name, c):
    """Create a symbolic value of a declared kind."""
    if isinstance(kind, tuple):
        k = kind[0]
    else:
        k = kind
    if k == "int":
        return SymInt(z3.Int(name))
    if k == "nat":
        v = SymInt(z3.Int(name))
        c.assume(v.e >= 0)
        return v
    if k == "range":        # ('range', lo, hi)
        v = SymInt(z3.Int(name))
        c.assume(z3.And(v.e >= kind[1], v.e < kind[2]))
        if kind[1] >= 0:
            v.width = max((kind[2] - 1).bit_length(), 1)
        return v
    if k == "bool":
        return SymBool(z3.Bool(name))
    if k == "float":
        from .symfloat import fresh
        return fresh(name)
    if k in ("bytes", "bytearray"):
        s = SymSeq(z3.Const(name, S.ISeq), k, (0, 256))
        return s
    if k == "list":         # list of ints, ('list', lo, hi) optional bounds
        b = (kind[1], kind[2]) if isinstance(kind, tuple) and len(kind) == 3 else None
        return SymSeq(z3.Const(name, S.ISeq), "list", b)
    if k == "bytelist":
        return SymSeq(z3.Const(name, S.ISeq), "list", (0, 256))
    if k == "const":
        return kind[1]
    if k == "small":        # ('small', lo, hi): concretised by forking one path per value
        v = z3.Int(name)
        c.assume(z3.And(v >= kind[1], v < kind[2]))
        r = c.choose(v, range(kind[1], kind[2]), complete=True)
        if r is None:
            raise PathEnd()
        return r
    raise ValueError("unknown kind %r" % (kind,))


def model_value(model, v):
    """Concrete Python value of a symbolic value under a z3 model."""
    if isinstance(v, SymInt):
        r = model.eval(v.e, model_completion=True)
        return r.as_long() if z3.is_int_value(r) else None
    if isinstance(v, SymBool):
        return z3.is_true(model.eval(v.e, model_completion=True))
    from .symfloat import SymFloat, model_float
    if isinstance(v, SymFloat):
        f = model_float(model, v)
        return {"__float__": repr(f)}
    if isinstance(v, SymSeq):
        n = model.eval(z3.Length(v.e), model_completion=True).as_long()
        items = []
        for i in range(min(n, 4096)):
            x = model.eval(v.e[i], model_completion=True)
            items.append(x.as_long() if z3.is_int_value(x) else 0)
        if v.kind == "bytes":
            return {"__bytes__": items}
        if v.kind == "bytearray":
            return {"__bytearray__": items}
        if v.kind == "tuple":
            return {"__tuple__": items}
        return items
    if isinstance(v, SymIter):
        return {"__iter__": model_value(model, v.remaining()), "pos": 0}
    if isinstance(v, (int, bool, str, type(None))):
        return v
    if isinstance(v, (list, tuple)):
        return [model_value(model, x) for x in v]
    return repr(v)


def unjson(v):
    if isinstance(v, dict):
        if "__bytes__" in v:
            return bytes(x % 256 for x in v["__bytes__"])
        if "__bytearray__" in v:
            return bytearray(x % 256 for x in v["__bytearray__"])
        if "__tuple__" in v:
            return tuple(v["__tuple__"])
        if "__float__" in v:
            return float(v["__float__"])
        if "__iter__" in v:
            s = unjson(v["__iter__"])
            return iter(s[v.get("pos", 0):])
        return {k: unjson(x) for k, x in v.items()}
    if isinstance(v, list):
        return [unjson(x) for x in v]
    return v


def _ename(etype):
    if isinstance(etype, tuple):
        return "|".join(t.__name__ for t in etype)
    return etype.__name__


def _ceval(fn, env, what):
    """Evaluate a piece of contract text.  An exception raised *by the contract*
    (e.g. an invariant naming a variable the code no longer has) means the
    contract is stale: undecided, never a violation."""
    try:
        return fn(env)
    except (PathEnd, Undecided):
        raise
    except Exception as e:
        raise Undecided("contract stale: %s raised %r" % (what, e))


# ------------------------------------------------------------------ loop cutting (AST)

class _VcRuntime:
    """Run-time side of the instrumentation; one instance per function."""

    def __init__(self, contract, fname):
        self.contract = contract
        self.fname = fname
        self.state = {}

    def reset(self, entry_env):
        self.state = {}
        self.entry_env = entry_env
        self.fg = Env()          # function-level ghost state (e.g. what was yielded)
        if self.contract.fghost_init:
            self.fg.update(self.contract.fghost_init(entry_env))
        entry_env["fg"] = self.fg

    def yield_(self, value):
        """`yield X` of a producer-style generator: ghost update + obligations"""
        if self.contract.on_yield is None:
            raise Undecided("function yields but the contract has no on_yield")
        self.contract.on_yield(self.fg, value, ctx(), self.entry_env)
        return None

    def _env(self, k, loc):
        env = Env()
        for name, v in loc.items():
            if name.startswith("__"):
                continue
            env[name] = v
        st = self.state.setdefault(k, {"ghost": Env()})
        env["ghost"] = st["ghost"]
        env["old"] = self.entry_env
        env["pre"] = st.get("pre", Env())
        env["fg"] = self.fg
        return env

    def _normalise(self, loc, spec):
        """native containers named in havoc -> proxies, so invariants can use them"""
        out = dict(loc)
        for name, kind in spec.havoc.items():
            if callable(kind):
                kind = kind(self.entry_env)
            if name in out and isinstance(out[name], (list, bytes, bytearray, tuple)) \
                    and not isinstance(out[name], SymSeq):
                k = kind[0] if isinstance(kind, tuple) else kind
                if k in ("list", "bytelist", "bytes", "bytearray"):
                    out[name] = SymSeq.lift(out[name])
        return out

    def enter(self, k, loc):
        spec = self.contract.loops[k]
        c = ctx()
        loc = self._normalise(loc, spec)
        st = self.state.setdefault(k, {"ghost": Env()})
        st["pre"] = Env({n: v for n, v in loc.items() if not n.startswith("__")})
        if spec.ghost_init:
            env = self._env(k, loc)
            st["ghost"].update(spec.ghost_init(env))
        env = self._env(k, loc)
        for name, g in _ceval(spec.invariant, env, "loop %d invariant" % k):
            c.oblige("loop%d-inv-init:%s" % (k, name), g)
        # meta invariants: element bounds of havocked sequences must hold now
        for name, kind in spec.havoc.items():
            if callable(kind):
                kind = kind(self.entry_env)
            kk = kind[0] if isinstance(kind, tuple) else kind
            if kk in ("bytelist", "bytes", "bytearray") or (kk == "list" and isinstance(kind, tuple)):
                lo, hi = (0, 256) if kk != "list" else (kind[1], kind[2])
                v = loc.get(name)
                ok = isinstance(v, SymSeq) and v.bounds_within(lo, hi)
                c.oblige("loop%d-inv-init:elem-bounds(%s)" % (k, name), ok)
        return None

    def havoc(self, k, name, loc):
        spec = self.contract.loops[k]
        c = ctx()
        if name not in loc:
            raise Undecided("contract stale: loop %d havocs %r, which the code does not bind before the loop" % (k, name))
        cur = loc[name]
        kind = spec.havoc[name]
        if callable(kind):
            kind = kind(self.entry_env)
        if isinstance(kind, tuple) and kind[0] == "object":
            # ('object', fn): fn(cur, ctx, name) havocs the object's state in place
            return kind[1](cur, c, "%s@L%d" % (name, k))
        if kind == "rangeiter":
            if not isinstance(cur, PB._SymRangeIter):
                raise Undecided("havoc 'rangeiter' of a non-range iterator")
            r = cur.r
            if r.step > 1:
                # cur == start + step*j, j >= 0, and the previous element (if any) was < stop
                j = z3.Int(c.fresh_name("%s.j@L%d" % (name, k)))
                lo, hi = as_z3_int(r.start), as_z3_int(r.stop)
                cur_e = lo + r.step * j
                c.assume(z3.And(j >= 0, z3.Or(j == 0, cur_e - r.step < hi)))
                cur.cur = SymInt(cur_e)
                return cur
            if r.step != 1:
                raise Undecided("havoc of range iterator with step < 1")
            p = SymInt(z3.Int(c.fresh_name("%s.cur@L%d" % (name, k))))
            lo, hi = as_z3_int(r.start), as_z3_int(r.stop)
            c.assume(z3.And(p.e >= lo, z3.Or(p.e <= hi, p.e == lo)))
            cur.cur = p
            clo, chi = S._concrete(r.start), S._concrete(r.stop)
            if clo is not None and chi is not None and chi - clo <= 256:
                # small concrete range: one path per loop index (the invariant is
                # then checked for every index separately -- still for all values)
                r = c.choose(p.e, range(clo, max(chi, clo) + 1), complete=True)
                if r is None:
                    raise PathEnd()
                cur.cur = r
            return cur
        if kind == "iter":
            if not isinstance(cur, SymIter):
                raise Undecided("havoc 'iter' of a non-symbolic iterator")
            cur.rem = z3.Const(c.fresh_name("%s.rem@L%d" % (name, k)), S.ISeq)
            return cur
        v = make_value(kind, c.fresh_name("%s@L%d" % (name, k)), c)
        return v

    def assume(self, k, loc):
        spec = self.contract.loops[k]
        c = ctx()
        st = self.state[k]
        for gname, kind in spec.ghost_havoc.items():
            st["ghost"][gname] = make_value(kind, c.fresh_name("%s@G%d" % (gname, k)), c)
        for gname, kind in spec.fghost_havoc.items():
            if isinstance(kind, tuple) and kind[0] == "object":
                self.fg[gname] = kind[1](self.fg.get(gname), c, "%s@F%d" % (gname, k))
            else:
                self.fg[gname] = make_value(kind, c.fresh_name("%s@F%d" % (gname, k)), c)
        env = self._env(k, loc)
        for name, g in _ceval(spec.invariant, env, "loop %d invariant" % k):
            c.assume(g)
        st["in_iteration"] = True
        if spec.decreases:
            st["dec0"] = spec.decreases(env)

    def cond_true(self, k, loc):
        """called at the top of the body (condition held)"""
        return None

    def iter_end(self, k, loc):
        spec = self.contract.loops[k]
        c = ctx()
        st = self.state[k]
        loc = self._normalise(loc, spec)
        if spec.ghost_update:
            env = self._env(k, loc)
            st["ghost"].update(spec.ghost_update(env))
        env = self._env(k, loc)
        for name, g in _ceval(spec.invariant, env, "loop %d invariant" % k):
            c.oblige("loop%d-inv-preserve:%s" % (k, name), g)
        for name, kind in spec.havoc.items():
            if callable(kind):
                kind = kind(self.entry_env)
            kk = kind[0] if isinstance(kind, tuple) else kind
            if kk in ("bytelist", "bytes", "bytearray") or (kk == "list" and isinstance(kind, tuple)):
                lo, hi = (0, 256) if kk != "list" else (kind[1], kind[2])
                v = loc.get(name)
                ok = isinstance(v, SymSeq) and v.bounds_within(lo, hi)
                c.oblige("loop%d-inv-preserve:elem-bounds(%s)" % (k, name), ok)
        if spec.decreases:
            d1 = spec.decreases(env)
            d0 = st["dec0"]
            c.oblige("loop%d-decreases:bounded" % k, d0 >= 0)
            c.oblige("loop%d-decreases:strict" % k, d1 < d0)
        raise PathEnd()

    # for-loops
    def mkiter(self, k, it):
        if isinstance(it, (range, PB.SymRange)):
            if isinstance(it, range):
                it = PB.SymRange(it.start, it.stop, it.step)
            return PB._SymRangeIter(it)
        if isinstance(it, SymSeq):
            return SymIter(it)
        if isinstance(it, (list, tuple, bytes, bytearray)):
            return SymIter(SymSeq.lift(it))
        return iter(it)

    def nxt(self, k, it):
        try:
            return (True, it.__next__())
        except StopIteration:
            return (False, None)


class _LoopCutter(ast.NodeTransformer):
    def __init__(self, loops):
        self.loops = loops
        self.counter = -1
        self.cur = []
        self.found = set()

    def visit_FunctionDef(self, node):
        if self.cur or getattr(self, "_top_done", False):
            # nested function: do not descend with loop context
            saved = self.cur
            self.cur = []
            self.generic_visit(node)
            self.cur = saved
            return node
        self._top_done = True
        node.decorator_list = []
        self.generic_visit(node)
        return node

    def _call(self, meth, k, *extra):
        return ast.Call(func=ast.Attribute(value=ast.Name(id="__vc", ctx=ast.Load()), attr=meth, ctx=ast.Load()),
                        args=[ast.Constant(k)] + list(extra), keywords=[])

    def _locals(self):
        return ast.Call(func=ast.Name(id="locals", ctx=ast.Load()), args=[], keywords=[])

    def _prologue(self, k):
        spec = self.loops[k]
        stmts = [ast.Expr(self._call("enter", k, self._locals()))]
        for name in spec.havoc:
            if name.startswith("@"):
                continue
            stmts.append(ast.Assign(targets=[ast.Name(id=name, ctx=ast.Store())],
                                    value=self._call("havoc", k, ast.Constant(name), self._locals())))
        stmts.append(ast.Expr(self._call("assume", k, self._locals())))
        return stmts

    def visit_While(self, node):
        self.counter += 1
        k = self.counter
        if k not in self.loops:
            self.generic_visit(node)
            return node
        self.found.add(k)
        if node.orelse:
            raise Undecided("while/else with invariant not supported")
        self.cur.append(k)
        body = [self.visit(s) for s in node.body]
        self.cur.pop()
        flat = []
        for s in body:
            flat.extend(s if isinstance(s, list) else [s])
        new_body = []
        test = node.test
        if not (isinstance(test, ast.Constant) and test.value is True):
            new_body.append(ast.If(test=ast.UnaryOp(op=ast.Not(), operand=test), body=[ast.Break()], orelse=[]))
        new_body.extend(flat)
        new_body.append(ast.Expr(self._call("iter_end", k, self._locals())))
        loop = ast.While(test=ast.Constant(True), body=new_body, orelse=[])
        return self._prologue(k) + [loop]

    def visit_For(self, node):
        self.counter += 1
        k = self.counter
        if k not in self.loops:
            self.generic_visit(node)
            return node
        self.found.add(k)
        if node.orelse:
            raise Undecided("for/else with invariant not supported")
        self.cur.append(k)
        body = [self.visit(s) for s in node.body]
        self.cur.pop()
        flat = []
        for s in body:
            flat.extend(s if isinstance(s, list) else [s])
        itname = "it%d__" % k
        nxname = "nx%d__" % k
        pre = [ast.Assign(targets=[ast.Name(id=itname, ctx=ast.Store())],
                          value=self._call("mkiter", k, node.iter))]
        new_body = [
            ast.Assign(targets=[ast.Name(id=nxname, ctx=ast.Store())],
                       value=self._call("nxt", k, ast.Name(id=itname, ctx=ast.Load()))),
            ast.If(test=ast.UnaryOp(op=ast.Not(), operand=ast.Subscript(
                value=ast.Name(id=nxname, ctx=ast.Load()), slice=ast.Constant(0), ctx=ast.Load())),
                body=[ast.Break()], orelse=[]),
            ast.Assign(targets=[node.target], value=ast.Subscript(
                value=ast.Name(id=nxname, ctx=ast.Load()), slice=ast.Constant(1), ctx=ast.Load())),
        ]
        new_body.extend(flat)
        new_body.append(ast.Expr(self._call("iter_end", k, self._locals())))
        loop = ast.While(test=ast.Constant(True), body=new_body, orelse=[])
        return pre + self._prologue(k) + [loop]

    def visit_Continue(self, node):
        if self.cur:
            return ast.Expr(self._call("iter_end", self.cur[-1], self._locals()))
        return node

    def visit_Yield(self, node):
        self.has_yield = True
        self.generic_visit(node)
        return ast.Call(func=ast.Attribute(value=ast.Name(id="__vc", ctx=ast.Load()), attr="yield_", ctx=ast.Load()),
                        args=[node.value if node.value is not None else ast.Constant(None)], keywords=[])


def instrument(fn, contract):
    """Re-compile fn from its own source with the contract's loops cut."""
    src = textwrap.dedent(inspect.getsource(fn))
    tree = ast.parse(src)
    cutter = _LoopCutter(contract.loops)
    tree = cutter.visit(tree)
    missing = set(contract.loops) - cutter.found
    if missing:
        raise Undecided("contract stale: loops %s not found in %s" % (sorted(missing), contract.target))
    ast.fix_missing_locations(tree)
    code = compile(tree, "<pyvc:%s>" % contract.target, "exec")
    rt = _VcRuntime(contract, fn.__name__)
    glb = fn.__globals__
    glb["__vc"] = rt
    ns = {}
    exec(code, glb, ns)
    newf = ns[fn.__name__]
    if fn.__closure__:
        raise Undecided("cannot instrument a closure")
    newf.__defaults__ = fn.__defaults__
    newf.__kwdefaults__ = fn.__kwdefaults__
    return newf, rt


# ------------------------------------------------------------------ discharge

def discharge(pc, goal, timeout_ms, axioms=()):
    """(status, model, seconds, backend): status in proved/refuted/unknown.

    Solver run times on these VCs are heavy-tailed in the random seed (the same
    query: 0.01 s under one seed, several seconds or a timeout under another), so
    a single long run is the fragile choice.  The schedule is a restart portfolio:
    short slices under three seeds first, then the full budget under a fourth;
    the arithmetic abstraction is tried briefly before and at length after the
    slices.  Any `unsat` proves, any `sat` refutes (then replayed natively);
    nothing else is ever turned into a verdict."""
    t0 = time.time()
    # structural normalisation (equivalence preserving): Length of concat / unit / empty / extract terms becomes integer
    # arithmetic over the lengths of the atomic sub-terms -- z3's sequence solver overshoots every budget on such terms
    pc = [_normalize_seq(e) for e in pc]
    goal = _normalize_seq(goal)
    exprs = list(pc) + [goal]
    use_pow2 = any(S._uses_pow2(e) for e in exprs)
    hints = _div_chain_hints(exprs)
    # strategy 0 (proof only): arithmetic abstraction.  Every Length(t) becomes an
    # opaque non-negative integer and hypotheses that mention other sequence
    # operations are dropped (weaker hypotheses: unsat here implies unsat there).
    ab = _arith_abstraction(pc, goal)
    ab_hints = _div_chain_hints(ab) if ab is not None else []
    ab_pow2 = ab is not None and any(S._uses_pow2(e) for e in ab)

    def try_abs(tmo):
        if ab is None:
            return False
        s0 = z3.Solver()
        S.set_budget(s0, tmo)
        if ab_pow2:
            for a in S.POW2_AXIOMS:
                s0.add(a)
        for e in ab[:-1]:
            s0.add(e)
        for h in ab_hints:
            s0.add(h)
        s0.add(z3.Not(ab[-1]))
        return s0.check() == z3.unsat

    def try_main(tmo, seed):
        s = z3.Solver()
        S.set_budget(s, tmo)
        if seed:
            s.set("random_seed", seed)
            s.set("smt.random_seed", seed)
        if use_pow2:
            for a in S.POW2_AXIOMS:
                s.add(a)
        for a in axioms:
            s.add(a)
        for e in pc:
            s.add(e)
        for h in hints:
            s.add(h)
        s.add(z3.Not(goal))
        return s.check(), s

    if try_abs(min(timeout_ms, 1000)):
        return "proved", None, time.time() - t0, "z3"
    s = None
    plan = [(min(timeout_ms, 2000), seed) for seed in (0, 1, 2)]
    if timeout_ms > 2000:
        plan.append((timeout_ms, 3))
    for k, (tmo, seed) in enumerate(plan):
        if k == len(plan) - 1 and try_abs(min(timeout_ms, 5000)):
            return "proved", None, time.time() - t0, "z3"
        r, s = try_main(tmo, seed)
        if r == z3.unsat:
            return "proved", None, time.time() - t0, "z3"
        if r == z3.sat:
            return "refuted", s.model(), time.time() - t0, "z3"
    # refutation-only retry: pow2 interpreted exactly on 0..96 (ground facts, no
    # quantifiers), every pow2 argument constrained to that range.  A model
    # found this way is a genuine counterexample candidate (replayed natively).
    if use_pow2:
        m = _pow2_bounded_model(list(pc) + [z3.Not(goal)], axioms, min(timeout_ms, 5000))
        if m is not None:
            return "refuted", m, time.time() - t0, "z3"
    # second back end: cvc5 through SMT-LIB2 (pure integer problems only: z3's
    # SMT-LIB printer is not reliable for recursive spec functions / sequences)
    st = "skipped" if _has_recfun_or_seq(exprs) else _cvc5_check(s, timeout_ms)
    dt = time.time() - t0
    if st == "unsat":
        return "proved", None, dt, "cvc5"
    return "unknown", None, dt, "z3+cvc5:" + str(s.reason_unknown())


_CHAIN_PROVED = {}


_NORM_CACHE = {}


def _normalize_seq(e):
    """replace Length(t) and nth(t, i) for structured sequence terms t (concat / unit / empty / extract) by the integer
    arithmetic of spec._slen / spec._sat, to a fix point (sound: equal in the theory of sequences; nth is only rewritten
    where the original term is, i.e. its value outside the bounds stays unspecified on both sides of an extract because
    obligations guard every index)"""
    from .spec import _slen, _sat
    STRUCT = (z3.Z3_OP_SEQ_CONCAT, z3.Z3_OP_SEQ_UNIT, z3.Z3_OP_SEQ_EMPTY, z3.Z3_OP_SEQ_EXTRACT)
    for _round in range(8):
        seen = set()
        stack = [e]
        subs = []
        while stack:
            t = stack.pop()
            if t.get_id() in seen:
                continue
            seen.add(t.get_id())
            if z3.is_quantifier(t):
                stack.append(t.body())
                continue
            if not z3.is_app(t):
                continue
            k = t.decl().kind()
            if k == z3.Z3_OP_SEQ_LENGTH:
                a0 = t.arg(0)
                if z3.is_app(a0) and a0.decl().kind() in STRUCT:
                    key = ("len", t.get_id())
                    if key not in _NORM_CACHE:
                        _NORM_CACHE[key] = (t, z3.simplify(_slen(a0)))
                    subs.append(_NORM_CACHE[key])
                    continue
            stack.extend(t.children())
        if not subs:
            return e
        e = z3.substitute(e, *subs)
    return e


def _div_chain_hints(exprs):
    """Links between floor divisions of the same term by constants that divide
    each other:  (X div a) div b == X div (a*b)  for numerals a, b > 0.

    A byte-wise decomposition  sum_i ((X div 256^i) mod 256) * 256^i == X  is linear
    once consecutive quotients are related, and hopeless for the solver when each
    `X div 256^i` is an unrelated quotient variable (8-byte case: unknown at 60 s
    without, 10 ms with).  Nothing is assumed: the general statement
    forall t. (t div a) div b == t div (a*b) is proved by the solver for each pair
    (a, b) used (cached per process); only then is the instance at X added."""
    groups = {}
    seen, todo = set(), list(exprs)
    while todo:
        t = todo.pop()
        if t.get_id() in seen:
            continue
        seen.add(t.get_id())
        if z3.is_quantifier(t):
            continue
        if z3.is_app(t):
            if t.decl().kind() == z3.Z3_OP_IDIV and z3.is_int_value(t.arg(1)) and t.arg(1).as_long() > 1 \
                    and not z3.is_int_value(t.arg(0)):
                groups.setdefault(t.arg(0).get_id(), (t.arg(0), set()))[1].add(t.arg(1).as_long())
            todo.extend(t.children())
    hints = []
    for X, cs in groups.values():
        cs = sorted(cs)
        for lo, hi in zip(cs, cs[1:]):
            if hi % lo != 0:
                continue
            a, b = lo, hi // lo
            if (a, b) not in _CHAIN_PROVED:
                tt = z3.Int("chain!t")
                s = z3.Solver()
                S.set_budget(s, 2000)
                s.add((tt / z3.IntVal(a)) / z3.IntVal(b) != tt / z3.IntVal(a * b))
                _CHAIN_PROVED[(a, b)] = (s.check() == z3.unsat)
            if _CHAIN_PROVED[(a, b)]:
                hints.append((X / z3.IntVal(a)) / z3.IntVal(b) == X / z3.IntVal(hi))
    return hints


def _arith_abstraction(pc, goal):
    """[hyps..., goal] over integers only, or None when nothing is gained."""
    cache = {}
    lens = {}
    any_seq = [False]

    def conv(t):
        """converted term, or None if t depends on a sequence other than via Length"""
        k = t.get_id()
        if k in cache:
            return cache[k]
        r = None
        if z3.is_quantifier(t):
            r = None
        elif z3.is_app(t):
            dk = t.decl().kind()
            if dk == z3.Z3_OP_SEQ_LENGTH:
                any_seq[0] = True
                key = t.arg(0).get_id()
                if key not in lens:
                    lens[key] = z3.Int("len!%d" % key)
                r = lens[key]
            elif t.sort().kind() == z3.Z3_SEQ_SORT or t.decl().name().startswith("spec_"):
                any_seq[0] = True
                r = None
            elif t.num_args() == 0:
                r = t
            else:
                ch = [conv(c) for c in t.children()]
                if any(c is None for c in ch):
                    r = None
                else:
                    try:
                        r = t.decl()(*ch)
                    except Exception:
                        r = None
        else:
            r = t
        cache[k] = r
        return r
    g = conv(goal)
    if g is None:
        return None
    hyps = []
    for p in pc:
        for cj in (p.children() if z3.is_and(p) else [p]):
            c = conv(cj)
            if c is not None:
                hyps.append(c)
    if not any_seq[0]:
        return None
    for v in lens.values():
        hyps.append(v >= 0)
    return hyps + [g]


def _has_recfun_or_seq(exprs):
    seen, todo = set(), list(exprs)
    while todo:
        t = todo.pop()
        if t.get_id() in seen:
            continue
        seen.add(t.get_id())
        if z3.is_app(t):
            if t.decl().name().startswith("spec_") or t.sort().kind() == z3.Z3_SEQ_SORT:
                return True
            todo.extend(t.children())
        elif z3.is_quantifier(t):
            todo.append(t.body())
    return False


def _pow2_args(exprs):
    seen, out, todo = set(), [], list(exprs)
    while todo:
        t = todo.pop()
        if t.get_id() in seen:
            continue
        seen.add(t.get_id())
        if z3.is_app(t):
            if t.decl().name() == "pow2" and t.num_args() == 1:
                out.append(t.arg(0))
            todo.extend(t.children())
        elif z3.is_quantifier(t):
            todo.append(t.body())
    return out


def _pow2_bounded_model(exprs, axioms, timeout_ms, bound=96):
    s = z3.Solver()
    S.set_budget(s, timeout_ms)
    for i in range(bound + 1):
        s.add(S.pow2f(i) == z3.IntVal(1 << i))
    for a in _pow2_args(exprs):
        if z3.is_var(a):
            return None
        s.add(z3.And(a >= 0, a <= bound))
    for a in axioms:
        s.add(a)
    for e in exprs:
        s.add(e)
    if s.check() == z3.sat:
        return s.model()
    return None


def _cvc5_check(solver, timeout_ms):
    import subprocess
    import tempfile
    import os
    try:
        txt = solver.to_smt2()
    except Exception:
        return "error"
    if "spec_" in txt and "define-fun-rec" not in txt:
        pass
    fd, path = tempfile.mkstemp(suffix=".smt2", prefix="pyvc_", dir=os.environ.get("PYVC_TMP", None))
    try:
        with os.fdopen(fd, "w") as f:
            f.write("(set-logic ALL)\n" + txt)
        p = subprocess.run(["/usr/bin/cvc5", "--strings-exp", "--tlimit=%d" % timeout_ms, path],
                           capture_output=True, text=True, timeout=timeout_ms / 1000 + 5)
        out = p.stdout.strip().splitlines()
        return out[0] if out else "error"
    except Exception:
        return "error"
    finally:
        try:
            os.unlink(path)
        except OSError:
            pass


# ------------------------------------------------------------------ running one contract at one grid point

class Known:
    """A known finding scoped to obligations of one contract."""

    def __init__(self, kid, obligation, region, witness, what):
        self.id = kid
        self.obligation = obligation   # substring of the obligation name
        self.region = region           # env -> bool : inputs where the defect manifests
        self.witness = witness         # concrete inputs that reproduce it
        self.what = what


def _match_known(contract, oname):
    return [k for k in contract.known if k.obligation in oname]


def run_contract(contract, gridpoint, timeout_ms=10000, max_paths=4000, unwind=64):
    """Explore all paths of the function under the contract at one grid point.

    Returns a JSON-able result dictionary."""
    t_start = time.time()
    res = {"target": contract.target, "label": contract.label, "prop": contract.prop,
           "grid": {k: (v if isinstance(v, (int, str, bool, type(None))) else repr(v)) for k, v in gridpoint.items()},
           "obligations": {}, "paths": 0, "undecided": [], "errors": [],
           "witness": None, "solver_time": 0.0, "solver_calls": 0}
    try:
        mod, parent, fn = resolve(contract.target)
    except Exception as e:
        res["undecided"].append("contract stale: cannot resolve %s (%s)" % (contract.target, e))
        return res
    raw = fn
    if isinstance(parent, type) and isinstance(parent.__dict__.get(raw.__name__ if hasattr(raw, "__name__") else "", None), (staticmethod, classmethod)):
        raw = parent.__dict__[raw.__name__].__func__
    res["source_hash"] = source_hash(raw)
    undo = []
    mods = [mod] + [importlib.import_module(m) for m in contract.modules]
    for m in mods:
        undo.append(PB.install(m))
    rt = None
    call_fn = fn
    try:
        if contract.loops or contract.on_yield or contract.always_instrument:
            newf, rt = instrument(raw, contract)
            call_fn = newf
            # route recursive / internal calls to the instrumented version as well
            if isinstance(parent, type):
                old_attr = parent.__dict__[raw.__name__]
                setattr(parent, raw.__name__, newf)
                undo.append(lambda: setattr(parent, raw.__name__, old_attr))
            else:
                old_attr = getattr(parent, raw.__name__)
                setattr(parent, raw.__name__, newf)
                undo.append(lambda: setattr(parent, raw.__name__, old_attr))
        if contract.setup:
            u = contract.setup(gridpoint)
            if u:
                undo.append(u)
        pending = [[]]
        npaths = 0
        agg = res["obligations"]
        feasible_post = False
        while pending:
            forced = pending.pop()
            npaths += 1
            if npaths > max_paths:
                res["undecided"].append("path budget exceeded (%d)" % max_paths)
                break
            c = Ctx(forced, timeout_ms=min(timeout_ms, 5000))
            set_ctx(c)
            try:
                _run_path(contract, gridpoint, call_fn, rt, c, res)
            except PathEnd:
                pass
            except Undecided as e:
                tb = traceback.extract_tb(e.__traceback__)
                where = " <- ".join("%s:%d" % (f.name, f.lineno) for f in tb[-4:])
                res["undecided"].append("unsupported: %s (%s)" % (e, where))
            except RecursionError:
                res["undecided"].append("recursion limit")
            finally:
                set_ctx(None)
            pending.extend(c.forks)
            res["solver_time"] += c.solver_time
            res["solver_calls"] += c.solver_calls
            # discharge this path's obligations
            for (name, pc, goal, info) in c.obligations:
                if _TRACE_OBL:
                    sys.stderr.write("OBLIGATION %s\n" % name)
                    if _os.environ.get("PYVC_TRACE_OBL") == "2":
                        sys.stderr.write("  PC %s\n  GOAL %s\n" % ([str(e)[:300] for e in pc], str(goal)[:300000]))
                    sys.stderr.flush()
                st, model, dt, backend = discharge(pc, goal, timeout_ms, c.axioms)
                res["solver_time"] += dt
                res["solver_calls"] += 1
                o = agg.setdefault(name, {"status": "proved", "instances": 0, "time": 0.0, "backends": {}})
                o["instances"] += 1
                o["time"] += dt
                o["tmax"] = max(o.get("tmax", 0.0), dt)
                o["backends"][backend.split(":")[0]] = o["backends"].get(backend.split(":")[0], 0) + 1
                if st == "refuted":
                    if o["status"] != "refuted":
                        o["status"] = "refuted"
                        inputs = c.ghost.get("inputs")
                        o["model"] = {k: model_value(model, v) for k, v in (inputs or {}).items()}
                        o["model_text"] = str(model)[:2000]
                        o["goal"] = str(goal)[:600]
                        if info:
                            o["info"] = info
                elif st == "unknown":
                    if o["status"] == "proved":
                        o["status"] = "unknown"
                        o["reason"] = backend
            if c.ghost.get("witness") and res["witness"] is None:
                res["witness"] = c.ghost["witness"]
        res["paths"] = npaths
    except Undecided as e:
        res["undecided"].append(str(e))
    except Exception as e:   # checker problem, not a verdict
        res["errors"].append("".join(traceback.format_exception(type(e), e, e.__traceback__))[-3000:])
    finally:
        set_ctx(None)
        for u in reversed(undo):
            try:
                u()
            except Exception:
                pass
    res["wall"] = time.time() - t_start
    return res


def _snapshot(v):
    if isinstance(v, SymSeq):
        return SymSeq(v.e, v.kind, v.elem_bounds)
    if isinstance(v, SymIter):
        return v.copy()
    if isinstance(v, (bytearray, list)):
        return type(v)(v)
    return v


def _run_path(contract, gridpoint, call_fn, rt, c, res):
    # 1. inputs
    env = Env()
    inputs = {}
    if contract.make:
        made = contract.make(c, gridpoint)
        args, kwargs = made["args"], made.get("kwargs", {})
        env.update(made.get("env", {}))
        inputs.update(made.get("inputs", {}))
    else:
        args, kwargs = [], {}
        for name, kind in contract.params.items():
            if name in gridpoint:
                v = gridpoint[name]
            else:
                v = make_value(kind, name, c)
                inputs[name] = v
            env[name] = v
            args.append(v)
    for k, v in gridpoint.items():
        env.setdefault(k, v)
    env["old"] = Env({k: _snapshot(v) for k, v in env.items() if k != "old"})
    c.ghost["inputs"] = inputs
    # known-finding regions (functions of the inputs)
    known_regions = []        # filled after the preconditions are assumed (regions may divide by an operand)
    c.ghost["known_regions"] = known_regions

    def oblige(name, goal):
        for kf, reg in known_regions:
            if kf.obligation in name:
                from .spec import or_
                goal = or_(reg, goal)
        c.oblige(name, goal)

    # patch loop obligations through the same filter
    orig_oblige = c.oblige

    def filtered(name, goal, info=None):
        for kf, reg in known_regions:
            if kf.obligation in name:
                goal = z3.Or(as_z3_bool(reg), as_z3_bool(goal))
        orig_oblige(name, goal, info)
    c.oblige = filtered

    # 2. requires
    if contract.requires:
        for r in contract.requires(env):
            c.assume(r)
    rq, _ = c.check(timeout=2000, wall_factor=2)
    if rq == z3.unsat:
        res["errors"].append("vacuous: requires unsatisfiable at grid %r" % (gridpoint,))
        return
    for kf in contract.known:
        known_regions.append((kf, _ceval(kf.region, env, "known-finding region %s" % kf.id)))
    if rt is not None:
        rt.reset(env["old"])
    # 3. call
    exc = None
    result = None
    try:
        if contract.call:
            result = contract.call(call_fn, env, args, kwargs)
        else:
            result = call_fn(*args, **kwargs)
    except (PathEnd, Undecided):
        raise
    except RecursionError:
        raise
    except Exception as e:
        exc = e
    env["result"] = result
    if rt is not None:
        env["fg"] = rt.fg
    # 4. exceptional postconditions (iff semantics)
    if exc is not None:
        matched = False
        for (etype, when) in contract.raises:
            if isinstance(exc, etype):
                matched = True
                c.oblige("raises-only-when:%s" % _ename(etype), _ceval(when, env, "raises clause"))
        if not matched:
            if isinstance(exc, contract.allow_exceptions):
                return
            tb = traceback.extract_tb(exc.__traceback__)
            where = "%s:%s" % (tb[-1].name, tb[-1].line) if tb else ""
            import re
            tbnames = [f.filename for f in tb]
            in_proxy = bool(tb) and ("/pyvc/" in tb[-1].filename)
            if isinstance(exc, (TypeError, AttributeError)) and (re.search(r"\bSym[A-Z]\w*", str(exc)) or in_proxy):
                # e.g. "unsupported operand type(s) for >>: 'int' and 'SymInt'": an operation the
                # proxies do not model.  No native run can raise this, so it is a limit of the
                # checker on this path (undecided), never a verdict about the code.
                raise Undecided("operation not modelled by the symbolic proxies: %r at %s" % (exc, where))
            c.oblige("no-unexpected-exception:%s" % type(exc).__name__, False,
                     info={"exc": repr(exc)[:200], "where": where})
        return
    for (etype, when) in contract.raises:
        from .spec import not_
        c.oblige("raises-when:%s" % _ename(etype), not_(_ceval(when, env, "raises clause")))
    # 5. normal postconditions
    if contract.ensures:
        posts = _ceval(contract.ensures, env, "ensures")
        for name, g in posts:
            c.oblige("post:%s" % name, g)
        # canary / witness: pc /\ post satisfiable on this path?
        if res.get("witness") is None and inputs:
            r, s = c.check(timeout=1000, wall_factor=2)
            if r == z3.sat:
                m = s.model()
                c.ghost["witness"] = {k: model_value(m, v) for k, v in inputs.items()}


# ------------------------------------------------------------------ native replay

def replay_native(contract, gridpoint, inputs):
    """Run the real, uninstrumented function on concrete inputs and evaluate the
    contract concretely.  Returns (ok, detail)."""
    mod, parent, fn = resolve(contract.target)
    env = Env()
    vals = {k: unjson(v) for k, v in inputs.items()}
    if contract.replay_args:
        made = contract.replay_args(gridpoint, vals)
        args, kwargs = made["args"], made.get("kwargs", {})
        env.update(made.get("env", {}))
    else:
        args = []
        kwargs = {}
        for name in contract.params:
            v = gridpoint[name] if name in gridpoint else vals.get(name)
            env[name] = v
            args.append(v)
    for k, v in gridpoint.items():
        env.setdefault(k, v)
    import copy

    def _cp(v):
        if isinstance(v, (bytearray, list, dict, set)):
            try:
                return copy.deepcopy(v)
            except Exception:
                return v
        return v
    env["old"] = Env({k: _cp(v) for k, v in env.items()})
    if contract.requires:
        try:
            if not all(bool(r) for r in contract.requires(env)):
                return None, "inputs do not satisfy requires (unreachable model)"
        except Exception as e:
            return None, "requires not evaluable concretely: %r" % (e,)
    exc = None
    result = None
    try:
        if contract.call:
            result = contract.call(fn, env, args, kwargs)
        else:
            result = fn(*args, **kwargs)
    except Exception as e:
        exc = e
    env["result"] = result
    detail = {"inputs": {k: repr(v) for k, v in vals.items()}, "grid": {k: repr(v) for k, v in gridpoint.items()}}
    if exc is not None:
        detail["observed"] = "raised %r" % (exc,)
        for (etype, when) in contract.raises:
            if isinstance(exc, etype):
                if bool(when(env)):
                    return True, detail
                detail["expected"] = "no %s for these inputs" % _ename(etype)
                return False, detail
        if isinstance(exc, contract.allow_exceptions):
            return True, detail
        detail["expected"] = "no exception of this type (contract: %s)" % [_ename(e) for e, _ in contract.raises]
        return False, detail
    detail["observed"] = "returned %r" % (result,)
    for (etype, when) in contract.raises:
        if bool(when(env)):
            detail["expected"] = "raise %s" % _ename(etype)
            return False, detail
    if contract.ensures:
        try:
            for name, g in contract.ensures(env):
                if not bool(g):
                    detail["expected"] = "postcondition %s" % name
                    return False, detail
        except Exception as e:
            detail["expected"] = "postcondition evaluation failed: %r" % (e,)
            return None, detail
    return True, detail


# ------------------------------------------------------------------ lemmas

class Lemma:
    """A spec-level obligation  hyps => goal  (e.g. an induction step whose
    induction hypothesis is listed in hyps; z3 does no induction by itself).

    build() returns (hyps, goal): one query.  With script=True, build(P) is a
    small proof script over a `Proof` object: every `have`/`have_forall`/`show`
    is its own solver query (its own obligation in the evidence), and a fact is
    only available to later steps after the solver has proved it.  Splitting
    keeps each query inside one theory combination the solver is stable on
    (definition unfolding of a recursive spec function | linear arithmetic with
    pow2) instead of one query mixing all of them."""

    def __init__(self, name, build, note="", script=False):
        self.name = name
        self.build = build
        self.note = note
        self.script = script

    def run(self, timeout_ms):
        c = Ctx((), timeout_ms)
        set_ctx(c)
        if self.script:
            P = Proof(timeout_ms)
            try:
                self.build(P)
            finally:
                set_ctx(None)
            return P.result()
        try:
            hyps, goal = self.build()
            hyps = [as_z3_bool(h) for h in hyps]
            goal = as_z3_bool(goal)
        finally:
            set_ctx(None)
        st, model, dt, backend = discharge(list(c.pc) + hyps, goal, timeout_ms)
        info = {"time": dt, "backend": backend.split(":")[0]}
        if st == "refuted":
            info["model_text"] = str(model)[:1500]
        return st, info


class Proof:
    """Facts of a lemma script.  `assume` adds a hypothesis of the lemma (part of
    its statement, e.g. the induction hypothesis); everything else is proved."""

    def __init__(self, timeout_ms):
        self.timeout_ms = timeout_ms
        self.facts = []
        self.steps = []        # (name, status, seconds, backend)
        self.model_text = None
        self._n = 0
        self.shown = False

    def var(self, name):
        from .sym import SymInt
        return SymInt(z3.Int(name))

    def assume(self, h):
        self.facts.append(as_z3_bool(h))

    def _step(self, name, hyps, goal):
        st, model, dt, backend = discharge(hyps, goal, self.timeout_ms)
        self.steps.append((name, st, dt, backend.split(":")[0]))
        if st == "refuted" and self.model_text is None:
            self.model_text = "step %r: %s" % (name, str(model)[:1400])
        return st

    def have(self, name, goal, using=None):
        """prove goal from the facts so far (or only from `using`), then keep it"""
        goal = as_z3_bool(goal)
        hyps = list(self.facts) if using is None else [as_z3_bool(u) for u in using]
        if self._step(name, hyps, goal) == "proved":
            self.facts.append(goal)

    def have_forall(self, name, fn, *terms):
        """fn(*args) -> (hyps, goal).  Proved once on fresh integer constants in an
        empty context (i.e. for all integers), then the instance at `terms` is kept."""
        from .sym import SymInt
        self._n += 1
        fresh = [SymInt(z3.Int("q%d!%d" % (i, self._n))) for i in range(len(terms))]
        hyps, goal = fn(*fresh)
        if self._step(name, [as_z3_bool(h) for h in hyps], as_z3_bool(goal)) == "proved":
            ih, ig = fn(*terms)
            ih = [as_z3_bool(h) for h in ih]
            self.facts.append(z3.Implies(z3.And(*ih), as_z3_bool(ig)) if ih else as_z3_bool(ig))

    def show(self, goal, name="conclusion"):
        self.shown = True
        self._step(name, list(self.facts), as_z3_bool(goal))

    def result(self):
        sts = [s[1] for s in self.steps]
        if not self.shown or not sts:
            st = "unknown"
        elif all(s == "proved" for s in sts):
            st = "proved"
        elif self.steps[-1][1] == "refuted" and all(s == "proved" for s in sts[:-1]):
            st = "refuted"      # the statement itself has a counter-model
        else:
            st = "unknown"      # a proof step failed: the script is inadequate, nothing is refuted
        info = {"time": sum(s[2] for s in self.steps), "backend": "z3",
                "steps": [{"step": s[0], "status": s[1], "time": round(s[2], 3), "backend": s[3]} for s in self.steps]}
        if st == "refuted":
            info["model_text"] = self.model_text
        return st, info
