"""pyvc.models -- assumed contracts (T4) of stdlib functions and contract-derived
models of verified repo helpers, usable on proxies.

* binascii.hexlify / unhexlify / bytes.fromhex / str.upper on hex text:
  hex text is kept abstract as a token standing for "the hexadecimal rendering of
  byte sequence s" (assumed inverse pair hexlify/unhexlify, T4).
* seqsum: sum() of an integer sequence as a recursive spec function.
* SymChunks: model of ppci.utils.chunk.chunks derived from its contract
  (chunks itself is verified against that contract under C19).
* GhostFile: a file object recording printed lines (extraction rule 3).
"""
import binascii as _binascii
import re
import z3
from . import sym as S
from .sym import SymInt, SymBool, SymSeq, SymIter, Undecided, ctx, mk, mkb, as_z3_int
from .spec import spec, ite, seq, cat, length

_TOKEN = re.compile("\x01HEX(\\d+):([lu])\x02")


@spec(["seq"], "int")
def seqsum(s):
    return ite(length(s) == 0, lambda: 0, lambda: s[0] + seqsum(s[1:]))


def seq_sum(s):
    """sum of an int sequence (polymorphic)"""
    if isinstance(s, SymSeq):
        c = S._concrete(s._len())
        if c is not None and c <= 64:
            r = 0
            for i in range(c):
                r = r + mk(s.e[i])
            return r
        return SymInt(seqsum.f(s.e)) if True else None
    return sum(s)


def _sum_define():
    seqsum._define()


class HexStr(str):
    """abstract hex text: a str holding a token"""

    def upper(self):
        return HexStr(str(self).replace(":l\x02", ":u\x02"))

    def lower(self):
        return HexStr(str(self).replace(":u\x02", ":l\x02"))

    def encode(self, *a):
        return HexBytes(str(self))

    def decode(self, *a):
        return self


class HexBytes:
    def __init__(self, tok):
        self.tok = tok

    def decode(self, *a):
        return HexStr(self.tok)

    def upper(self):
        return HexBytes(str(HexStr(self.tok).upper()))


def _register(seqv):
    c = ctx()
    reg = c.ghost.setdefault("hex", [])
    reg.append(seqv)
    return "\x01HEX%d:l\x02" % (len(reg) - 1)


def hexlify(data, *a):
    if isinstance(data, SymSeq):
        return HexBytes(_register(SymSeq(data.e, "bytes", data.elem_bounds)))
    return _binascii.hexlify(data, *a)


def unhex_text(text):
    """bytes denoted by hex text (concrete text or text made of tokens)."""
    if isinstance(text, (HexBytes,)):
        text = text.tok
    if isinstance(text, bytes):
        text = text.decode("ascii")
    if "\x01HEX" in text:
        parts = []
        pos = 0
        reg = ctx().ghost.get("hex", [])
        for m in _TOKEN.finditer(text):
            if m.start() != pos:
                lit = text[pos:m.start()]
                parts.append(SymSeq.lift(bytes.fromhex(lit), "bytes"))
            parts.append(reg[int(m.group(1))])
            pos = m.end()
        if pos != len(text):
            parts.append(SymSeq.lift(bytes.fromhex(text[pos:]), "bytes"))
        r = parts[0]
        for p in parts[1:]:
            r = r + p
        return SymSeq(r.e, "bytes", r.elem_bounds)
    return bytes.fromhex(text)


def unhexlify(text):
    if isinstance(text, (HexStr, HexBytes)) or (isinstance(text, str) and "\x01HEX" in text):
        return unhex_text(text)
    return _binascii.unhexlify(text)


def is_upper_hex(text):
    if isinstance(text, str) and "\x01HEX" in text:
        return all(m.group(2) == "u" for m in _TOKEN.finditer(text)) and \
            _TOKEN.sub("", text) == _TOKEN.sub("", text).upper()
    return text == text.upper()


class binascii_proxy:
    hexlify = staticmethod(hexlify)
    unhexlify = staticmethod(unhexlify)
    Error = _binascii.Error


# ---------------------------------------------------------------- chunks model

class SymChunks:
    """Iterator model of chunks(data, size) derived from its contract: the
    pieces are successive prefixes of the remaining data, each of length
    min(size, len(remaining)) (i.e. data[k*size:(k+1)*size]), until nothing is
    left.  State: `rem`, the data not yet delivered (word-equation form)."""

    def __init__(self, data, size=30):
        self.data = SymSeq.lift(data) if not isinstance(data, SymSeq) else data
        self.size = size
        self.rem = SymSeq(self.data.e, self.data.kind, self.data.elem_bounds)

    def __iter__(self):
        return self

    def __next__(self):
        c = ctx()
        if not c.decide(z3.Length(self.rem.e) > 0):
            raise StopIteration
        piece = z3.Const(c.fresh_name("piece"), S.ISeq)
        rest = z3.Const(c.fresh_name("rest"), S.ISeq)
        n = z3.Length(self.rem.e)
        c.assume(self.rem.e == z3.Concat(piece, rest))
        c.assume(z3.Length(piece) == z3.If(n < self.size, n, z3.IntVal(self.size)))
        self.rem = SymSeq(rest, self.data.kind, self.data.elem_bounds)
        return SymSeq(piece, self.data.kind, self.data.elem_bounds)


def chunks_model(data, size=30):
    if isinstance(data, SymSeq):
        return SymChunks(data, size)
    from ppci.utils.chunk import chunks as real
    return real(data, size)


# ---------------------------------------------------------------- ghost file

class GhostFile:
    """file-like object: print(x, file=f) appends the line to f.lines and feeds
    it to an optional spec-level reader (ghost state that invariants mention)."""

    def __init__(self, reader=None):
        self.lines = []
        self._buf = ""
        self.reader = reader

    def write(self, s):
        self._buf += s
        while "\n" in self._buf:
            line, self._buf = self._buf.split("\n", 1)
            self.lines.append(line)
            if self.reader is not None:
                self.reader.feed_line(line)
        return len(s)

    def flush(self):
        pass
