"""pyvc.models -- assumed contracts (T4) of stdlib functions and contract-derived
models of verified repo helpers, usable on proxies.

* binascii.hexlify / unhexlify / bytes.fromhex / str.upper on hex text:
  hex text is kept abstract as a token standing for "the hexadecimal rendering of
  byte sequence s" (assumed inverse pair hexlify/unhexlify, T4).
* seqsum: sum() of an integer sequence as a recursive spec function.
* SymChunks: model of ppci.utils.chunk.chunks derived from its contract
  (chunks itself is verified against that contract under C19).
* GhostFile: a file object recording printed lines (extraction rule 3).
"""
import binascii as _binascii
import re
import z3
from . import sym as S
from .sym import SymInt, SymBool, SymSeq, SymIter, Undecided, ctx, mk, mkb, as_z3_int
from .spec import spec, ite, seq, cat, length

_TOKEN = re.compile("\x01HEX(\\d+):([lu])\x02")


@spec(["seq"], "int")
def seqsum(s):
    return ite(length(s) == 0, lambda: 0, lambda: s[0] + seqsum(s[1:]))


def seq_sum(s):
    """sum of an int sequence (polymorphic)"""
    if isinstance(s, SymSeq):
        c = S._concrete(s._len())
        if c is not None and c <= 64:
            r = 0
            for i in range(c):
                r = r + mk(s.e[i])
            return r
        seqsum._define()
        return SymInt(seqsum.f(s.e))
    return sum(s)


def _sum_define():
    seqsum._define()


class HexStr(str):
    """abstract hex text: a str holding a token"""

    def upper(self):
        return HexStr(str(self).replace(":l\x02", ":u\x02"))

    def lower(self):
        return HexStr(str(self).replace(":u\x02", ":l\x02"))

    def encode(self, *a):
        return HexBytes(str(self))

    def decode(self, *a):
        return self


class HexBytes:
    def __init__(self, tok):
        self.tok = tok

    def decode(self, *a):
        return HexStr(self.tok)

    def upper(self):
        return HexBytes(str(HexStr(self.tok).upper()))


def _register(seqv):
    c = ctx()
    reg = c.ghost.setdefault("hex", [])
    reg.append(seqv)
    return "\x01HEX%d:l\x02" % (len(reg) - 1)


def hexlify(data, *a):
    if isinstance(data, SymSeq):
        return HexBytes(_register(SymSeq(data.e, "bytes", data.elem_bounds)))
    return _binascii.hexlify(data, *a)


def unhex_text(text):
    """bytes denoted by hex text (concrete text or text made of tokens)."""
    if isinstance(text, (HexBytes,)):
        text = text.tok
    if isinstance(text, bytes):
        text = text.decode("ascii")
    if "\x01HEX" in text:
        parts = []
        pos = 0
        reg = ctx().ghost.get("hex", [])
        for m in _TOKEN.finditer(text):
            if m.start() != pos:
                lit = text[pos:m.start()]
                parts.append(SymSeq.lift(bytes.fromhex(lit), "bytes"))
            parts.append(reg[int(m.group(1))])
            pos = m.end()
        if pos != len(text):
            parts.append(SymSeq.lift(bytes.fromhex(text[pos:]), "bytes"))
        r = parts[0]
        for p in parts[1:]:
            r = r + p
        return SymSeq(r.e, "bytes", r.elem_bounds)
    return bytes.fromhex(text)


def unhexlify(text):
    if isinstance(text, (HexStr, HexBytes)) or (isinstance(text, str) and "\x01HEX" in text):
        return unhex_text(text)
    return _binascii.unhexlify(text)


def is_upper_hex(text):
    if isinstance(text, str) and "\x01HEX" in text:
        return all(m.group(2) == "u" for m in _TOKEN.finditer(text)) and \
            _TOKEN.sub("", text) == _TOKEN.sub("", text).upper()
    return text == text.upper()


class binascii_proxy:
    hexlify = staticmethod(hexlify)
    unhexlify = staticmethod(unhexlify)
    Error = _binascii.Error


# ---------------------------------------------------------------- chunks model

class SymChunks:
    """Iterator model of chunks(data, size) derived from its contract: the
    pieces are successive prefixes of the remaining data, each of length
    min(size, len(remaining)) (i.e. data[k*size:(k+1)*size]), until nothing is
    left.  State: `rem`, the data not yet delivered (word-equation form)."""

    def __init__(self, data, size=30):
        self.data = SymSeq.lift(data) if not isinstance(data, SymSeq) else data
        self.size = size
        self.rem = SymSeq(self.data.e, self.data.kind, self.data.elem_bounds)

    def __iter__(self):
        return self

    def __next__(self):
        c = ctx()
        if not c.decide(z3.Length(self.rem.e) > 0):
            raise StopIteration
        piece = z3.Const(c.fresh_name("piece"), S.ISeq)
        rest = z3.Const(c.fresh_name("rest"), S.ISeq)
        n = z3.Length(self.rem.e)
        c.assume(self.rem.e == z3.Concat(piece, rest))
        c.assume(z3.Length(piece) == z3.If(n < self.size, n, z3.IntVal(self.size)))
        self.rem = SymSeq(rest, self.data.kind, self.data.elem_bounds)
        return SymSeq(piece, self.data.kind, self.data.elem_bounds)


def chunks_model(data, size=30):
    if isinstance(data, SymSeq):
        return SymChunks(data, size)
    from ppci.utils.chunk import chunks as real
    return real(data, size)


# ---------------------------------------------------------------- ghost file

class GhostFile:
    """file-like object: print(x, file=f) appends the line to f.lines and feeds
    it to an optional spec-level reader (ghost state that invariants mention)."""

    def __init__(self, reader=None):
        self.lines = []
        self._buf = ""
        self.reader = reader

    def write(self, s):
        self._buf += s
        while "\n" in self._buf:
            line, self._buf = self._buf.split("\n", 1)
            self.lines.append(line)
            if self.reader is not None:
                self.reader.feed_line(line)
        return len(s)

    def flush(self):
        pass


# ---------------------------------------------------------------- fixed-length byte buffers

class SymBuf:
    """A bytearray/bytes of *concrete length* whose items are symbolic bytes
    (e.g. the 4 bytes of an instruction word).  Mutable like a bytearray."""

    def __init__(self, items, kind="bytearray"):
        self.items = list(items)
        self.kind = kind

    @staticmethod
    def fresh(c, name, n, kind="bytearray"):
        items = []
        for i in range(n):
            v = SymInt(z3.Int("%s[%d]" % (name, i)))
            c.assume(z3.And(v.e >= 0, v.e < 256))
            v.width = 8
            items.append(v)
        return SymBuf(items, kind)

    def __len__(self):
        return len(self.items)

    def __iter__(self):
        return iter(self.items)

    def __reversed__(self):
        return reversed(self.items)

    def _chk(self, v):
        if isinstance(v, int):
            if not 0 <= v < 256:
                raise ValueError("byte must be in range(0, 256)")
            return v
        if not bool((v >= 0) & (v < 256)):
            raise ValueError("byte must be in range(0, 256)")
        if isinstance(v, SymInt) and v.kb is None:
            v.width = 8
        return v

    def __getitem__(self, i):
        if isinstance(i, slice):
            return SymBuf(self.items[i], self.kind)
        if isinstance(i, (SymInt, SymBool)):
            i = i.__index__()
        return self.items[i]

    def __setitem__(self, i, v):
        if self.kind != "bytearray":
            raise TypeError("'bytes' object does not support item assignment")
        if isinstance(i, slice):
            vals = [self._chk(x) for x in v]
            self.items[i] = vals
            return
        if isinstance(i, (SymInt, SymBool)):
            i = i.__index__()
        self.items[i] = self._chk(v)

    def __add__(self, o):
        return SymBuf(self.items + list(o), self.kind)

    def __radd__(self, o):
        return SymBuf(list(o) + self.items, "bytes" if isinstance(o, bytes) else self.kind)

    def __eq__(self, o):
        o = list(o)
        if len(o) != len(self.items):
            return False
        from .spec import and_
        return and_(*[a == b for a, b in zip(self.items, o)]) if o else True

    __hash__ = None

    def word(self, endian="little"):
        items = self.items if endian == "little" else list(reversed(self.items))
        r = 0
        for i, b in enumerate(items):
            r = r + b * (1 << (8 * i))
        return r

    def snapshot(self):
        return SymBuf(list(self.items), self.kind)


def buf_items(x):
    """list of byte values of a bytes-like result (SymBuf, SymSeq of concrete length, bytes, bytearray)"""
    if isinstance(x, SymBuf):
        return list(x.items)
    if isinstance(x, SymSeq):
        n = S._concrete(x._len())
        if n is None:
            raise Undecided("bytes result of symbolic length")
        return [x[i] for i in range(n)]
    return list(x)


def buf_word(x, endian="little"):
    items = buf_items(x)
    if endian != "little":
        items = list(reversed(items))
    r = 0
    for i, b in enumerate(items):
        r = r + b * (1 << (8 * i))
    return r


# ---------------------------------------------------------------- struct (assumed contract, T4)

import struct as _struct

_STRUCT_CODES = {"B": (1, False), "H": (2, False), "I": (4, False), "L": (4, False), "Q": (8, False),
                 "b": (1, True), "h": (2, True), "i": (4, True), "l": (4, True), "q": (8, True)}


def _struct_fmt(fmt):
    import sys as _sys
    order = _sys.byteorder          # no prefix / '@' / '=': native order (single items: no padding involved)
    if fmt and fmt[0] in "<>!=@":
        if fmt[0] in ">!":
            order = "big"
        elif fmt[0] == "<":
            order = "little"
        fmt = fmt[1:]
    codes = []
    for ch in fmt:
        if ch not in _STRUCT_CODES:
            raise Undecided("struct format %r not modelled" % ch)
        codes.append(_STRUCT_CODES[ch])
    return order, codes


class struct_proxy:
    """struct.pack / unpack for fixed-size integer codes with explicit byte order:
    pack raises struct.error iff a value is outside the code's range, otherwise yields the
    big-/little-endian two's-complement image; unpack is its inverse and raises struct.error
    iff the buffer length differs from the format's size.  Concrete calls use the real module."""
    error = _struct.error
    calcsize = staticmethod(_struct.calcsize)
    Struct = _struct.Struct

    @staticmethod
    def pack(fmt, *vals):
        if not any(S.is_sym(v) for v in vals):
            return _struct.pack(fmt, *vals)
        order, codes = _struct_fmt(fmt)
        if len(codes) != len(vals):
            raise _struct.error("pack expected %d items for packing (got %d)" % (len(codes), len(vals)))
        items = []
        for (n, signed), v in zip(codes, vals):
            lo, hi = (-(1 << (8 * n - 1)), 1 << (8 * n - 1)) if signed else (0, 1 << (8 * n))
            if not bool((v >= lo) & (v < hi)):
                raise _struct.error("argument out of range")
            bs = [(v >> (8 * i)) & 0xFF for i in range(n)]
            if order == "big":
                bs.reverse()
            items.extend(bs)
        r = SymSeq.from_list(items, "bytes")
        r.elem_bounds = (0, 256)
        return r

    @staticmethod
    def unpack(fmt, data):
        if not isinstance(data, (SymSeq, SymBuf)):
            return _struct.unpack(fmt, data)
        order, codes = _struct_fmt(fmt)
        total = sum(n for n, _ in codes)
        if isinstance(data, SymSeq):
            if not bool(data._len() == total):
                raise _struct.error("unpack requires a buffer of %d bytes" % total)
        elif len(data) != total:
            raise _struct.error("unpack requires a buffer of %d bytes" % total)
        out = []
        pos = 0
        for n, signed in codes:
            bs = [data[pos + i] for i in range(n)]
            pos += n
            if order == "big":
                bs.reverse()
            v = 0
            for i, b in enumerate(bs):
                v = v + b * (1 << (8 * i))
            if signed:
                v = v - ite(bs[-1] >= 128, lambda: (1 << (8 * n)), lambda: 0)
            out.append(v)
        return tuple(out)


# ---------------------------------------------------------------- sequences of integer pairs (interval lists)

class SymPairSeq:
    """A tuple of (lo, hi) integer pairs of SYMBOLIC length, encoded as two z3 arrays and a length
    (quantified obligations over z3's Seq sort stay `unknown`; over arrays they are decided).
    Supports len(), indexing with a symbolic index (IndexError iff out of range), truthiness, iteration
    (an iterator with a symbolic position, havocked at cut loops)."""

    def __init__(self, name):
        c = ctx()
        self.lo = z3.Array(name + ".lo", z3.IntSort(), z3.IntSort())
        self.hi = z3.Array(name + ".hi", z3.IntSort(), z3.IntSort())
        self.n = z3.Int(name + ".n")
        c.assume(self.n >= 0)

    def _sym_len(self):
        return mk(self.n)

    def __len__(self):
        raise Undecided("len() of a symbolic pair sequence through the C slot (use the patched len)")

    def __bool__(self):
        return ctx().decide(self.n > 0)

    def __getitem__(self, i):
        if isinstance(i, slice):
            if i.step is not None or i.stop is not None or not isinstance(i.start, int) or i.start < 0:
                raise Undecided("only seq[c:] slices of a symbolic pair sequence are modelled")
            off = i.start
            v = SymPairSeq.__new__(SymPairSeq)
            k = z3.Int("sl!k")
            v.lo = z3.Lambda([k], z3.Select(self.lo, k + off))
            v.hi = z3.Lambda([k], z3.Select(self.hi, k + off))
            v.n = z3.If(self.n >= off, self.n - off, z3.IntVal(0))
            return v
        ei = as_z3_int(i)
        c = ctx()
        if c.decide(ei < 0):
            ei = ei + self.n
        if not c.decide(z3.And(ei >= 0, ei < self.n)):
            raise IndexError("tuple index out of range")
        return (mk(z3.simplify(z3.Select(self.lo, ei))), mk(z3.simplify(z3.Select(self.hi, ei))))

    def __iter__(self):
        return SymPairIter(self)

    def __add__(self, other):
        """concatenation of two pair sequences: a SymPairList defined element-wise by quantified facts"""
        if not isinstance(other, SymPairSeq):
            raise Undecided("concatenation of a symbolic pair sequence with %r" % type(other))
        c = ctx()
        r = SymPairList("cat", c)
        k = z3.Int("cat!k")
        c.assume(r.n == self.n + other.n)
        c.assume(z3.ForAll([k], z3.Implies(z3.And(k >= 0, k < self.n), z3.And(z3.Select(r.lo, k) == z3.Select(self.lo, k),
                                                                            z3.Select(r.hi, k) == z3.Select(self.hi, k)))))
        c.assume(z3.ForAll([k], z3.Implies(z3.And(k >= 0, k < other.n), z3.And(z3.Select(r.lo, self.n + k) == z3.Select(other.lo, k),
                                                                             z3.Select(r.hi, self.n + k) == z3.Select(other.hi, k)))))
        return r


class SymPairIter:
    def __init__(self, seq):
        self.seq = seq
        self.pos = 0

    def __iter__(self):
        return self

    def __next__(self):
        c = ctx()
        p = as_z3_int(self.pos)
        if not c.decide(p < self.seq.n):
            raise StopIteration
        item = (mk(z3.simplify(z3.Select(self.seq.lo, p))), mk(z3.simplify(z3.Select(self.seq.hi, p))))
        self.pos = mk(z3.simplify(p + 1))
        return item


def havoc_pair_iter(it, c, name):
    if not isinstance(it, SymPairIter):
        raise Undecided("loop no longer iterates over the range list")
    p = z3.Int(c.fresh_name(name + ".pos"))
    c.assume(z3.And(p >= 0, p <= it.seq.n))
    it.pos = SymInt(p)
    return it


class bisect_proxy:
    """bisect.bisect / bisect_right on a SymPairSeq with a 1-tuple key (v,) (assumed contract of the
    C implementation, T4): precondition = the sequence is sorted by first component (obligation at the call);
    result i with 0 <= i <= n, every pair before i has lo < v, every pair from i on has lo >= v.
    (A pair (lo, hi) compares below the 1-tuple (v,) iff lo < v: on lo == v the longer tuple is greater.)"""
    import bisect as _real

    @staticmethod
    def bisect(a, x, *rest):
        if not isinstance(a, SymPairSeq):
            return bisect_proxy._real.bisect(a, x, *rest)
        if rest or not (isinstance(x, tuple) and len(x) == 1):
            raise Undecided("bisect on a symbolic pair sequence with this key shape is not modelled")
        c = ctx()
        v = as_z3_int(x[0])
        p, q = z3.Ints("bs!p bs!q")
        c.oblige("call-pre@bisect: sequence sorted by first component",
                 z3.ForAll([p, q], z3.Implies(z3.And(p >= 0, p < q, q < a.n), z3.Select(a.lo, p) <= z3.Select(a.lo, q))))
        i = z3.Int(c.fresh_name("bisect"))
        j = z3.Int("bs!j")
        c.assume(z3.And(i >= 0, i <= a.n))
        c.assume(z3.ForAll([j], z3.Implies(z3.And(j >= 0, j < i), z3.Select(a.lo, j) < v)))
        c.assume(z3.ForAll([j], z3.Implies(z3.And(j >= i, j < a.n), z3.Select(a.lo, j) >= v)))
        return SymInt(i)

    bisect_right = bisect


class StarOf:
    """sentinel yielded when a SymPairList is star-expanded in a call: f(*lst) reaches f as f(StarOf(lst))"""

    def __init__(self, lst):
        self.lst = lst


class SymPairList:
    """A mutable list of (lo, hi) pairs of symbolic length (arrays + length); supports append.  Star-expanding it
    (`f(*lst)`) passes a single StarOf sentinel, so that a contract stub of f can take the whole list."""

    def __init__(self, name, c=None):
        c = c or ctx()
        self.lo = z3.Array(c.fresh_name(name + ".lo"), z3.IntSort(), z3.IntSort())
        self.hi = z3.Array(c.fresh_name(name + ".hi"), z3.IntSort(), z3.IntSort())
        self.n = z3.Int(c.fresh_name(name + ".n"))
        c.assume(self.n >= 0)

    @staticmethod
    def empty(name):
        r = SymPairList(name)
        r.n = z3.IntVal(0)
        return r

    def append(self, pair):
        lo, hi = pair
        self.lo = z3.Store(self.lo, self.n, as_z3_int(lo))
        self.hi = z3.Store(self.hi, self.n, as_z3_int(hi))
        self.n = self.n + 1

    def _sym_len(self):
        return mk(self.n)

    def __iter__(self):
        return iter([StarOf(self)])


def pairs_of(x):
    """(lo array-or-None, hi, n, native list) view of SymPairSeq / SymPairList / native list of pairs"""
    if isinstance(x, (SymPairSeq, SymPairList)):
        return x.lo, x.hi, x.n
    lo = z3.K(z3.IntSort(), z3.IntVal(0))
    hi = z3.K(z3.IntSort(), z3.IntVal(0))
    for k, (a, b) in enumerate(x):
        lo = z3.Store(lo, k, as_z3_int(a))
        hi = z3.Store(hi, k, as_z3_int(b))
    return lo, hi, z3.IntVal(len(x))


_VK = [0]


def in_view(x, pairs, start=0, end=None):
    """z3 Bool: x lies in one of pairs[start:end]"""
    lo, hi, n = pairs_of(pairs)
    _VK[0] += 1
    k = z3.Int("vk!%d" % _VK[0])
    xe = as_z3_int(x)
    stop = n if end is None else as_z3_int(end)
    return z3.Exists([k], z3.And(k >= as_z3_int(start), k < stop, k < n, z3.Select(lo, k) <= xe, xe <= z3.Select(hi, k)))
