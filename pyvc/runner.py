"""pyvc.runner -- check entry point.

    python3-vt -m pyvc.runner <Cxx> [--tier quick|thorough]
    python3-vt -m pyvc.runner --replay <path>

Exit codes: 0 every obligation proved (known findings printed);
            1 at least one obligation refuted (VIOLATION line, replay file);
            2 undecided (solver unknown, unsupported construct, stale contract);
            3 checker error.
"""
import argparse
import importlib
import itertools
import json
import multiprocessing as mp
import os
import random
import sys
import time
import traceback
from pyvc.sym import Undecided

VERIF = os.path.dirname(os.path.dirname(os.path.abspath(__file__)))
REPO = os.environ.get("PPCI_REPO", "/repo")
if REPO not in sys.path:
    sys.path.insert(0, REPO)
if VERIF not in sys.path:
    sys.path.insert(0, VERIF)

TRUSTED_BASE = [
    "T1 loop-cutting instrumentation preserves behaviour (cross-checked each run: every contract is also evaluated natively on the real, "
    "uninstrumented function for the solver's witness and sampled inputs)",
    "T2 symbolic proxy semantics == CPython for the operators used (same native cross-check; a proved contract that fails natively is reported)",
    "T3 z3 5.1 / cvc5 1.0.3 soundness",
    "T5 spec functions / specification tables express the property statement",
    "Python int arithmetic modelled as mathematical integers (exact: Python ints are unbounded)",
]


def load_known(prop):
    path = os.path.join(VERIF, "known_findings.jsonl")
    out = []
    if os.path.exists(path):
        for line in open(path):
            line = line.strip()
            if not line or line.startswith("#") or line.startswith("fixed:"):
                continue
            d = json.loads(line)
            if d.get("property") == prop:
                out.append(d)
    return out


def _attach_known(mod, prop):
    """Attach known findings (from known_findings.jsonl) to the contracts."""
    from pyvc.engine import Known
    helpers = getattr(mod, "KNOWN_HELPERS", {})
    for d in load_known(prop):
        if d.get("bounded"):
            continue            # identified by its input, handled with the bounded stand-in
        for ct in mod.CONTRACTS:
            if ct.label == d["contract"]:
                expr = d["region"]
                code = compile(expr, "<known:%s>" % d["id"], "eval")

                def region(env, code=code):
                    scope = dict(helpers)
                    scope.update(env)
                    return eval(code, {"__builtins__": {}}, scope)
                ct.known.append(Known(d["id"], d["obligation"], region, d.get("witness"), d["what"]))


def _job(a):
    modname, ci, gi, timeout_ms = a
    try:
        mod = importlib.import_module(modname)
        prop = mod.CONTRACTS[ci].prop
        if not getattr(mod, "_known_attached", False):
            _attach_known(mod, prop)
            mod._known_attached = True
        from pyvc.engine import run_contract
        ct = mod.CONTRACTS[ci]
        r = run_contract(ct, ct.grid[gi], timeout_ms=timeout_ms)
        r["ci"], r["gi"] = ci, gi
        return r
    except BaseException as e:
        return {"ci": ci, "gi": gi, "obligations": {}, "undecided": [],
                "errors": ["job crashed: " + "".join(traceback.format_exception(type(e), e, e.__traceback__))[-2000:]],
                "paths": 0, "solver_time": 0.0, "solver_calls": 0, "witness": None, "wall": 0}


def _child(conn, a):
    try:
        conn.send(_job(a))
    finally:
        conn.close()


def _run_jobs(jobs, nproc, job_timeout_s):
    """One forked process per job, at most nproc at a time.  A worker that dies
    (e.g. a solver crash) or exceeds the time limit yields a checker error for
    that job only -- it can neither hang the run nor be mistaken for a verdict."""
    ctxm = mp.get_context("fork")
    pending = list(reversed(jobs))
    running = []
    results = []

    def crashed(a, why):
        return {"ci": a[1], "gi": a[2], "obligations": {}, "undecided": [], "errors": [why],
                "paths": 0, "solver_time": 0.0, "solver_calls": 0, "witness": None, "wall": 0}
    while pending or running:
        while pending and len(running) < nproc:
            a = pending.pop()
            parent, child = ctxm.Pipe(duplex=False)
            p = ctxm.Process(target=_child, args=(child, a))
            p.start()
            child.close()
            running.append((p, parent, a, time.time()))
        still = []
        for (p, conn, a, t0) in running:
            if conn.poll(0.02):
                try:
                    results.append(conn.recv())
                except (EOFError, OSError):
                    p.join(1)
                    results.append(crashed(a, "worker died (exit code %s)" % p.exitcode))
                p.join(5)
                conn.close()
            elif not p.is_alive():
                if conn.poll(0.1):
                    try:
                        results.append(conn.recv())
                    except (EOFError, OSError):
                        results.append(crashed(a, "worker died (exit code %s)" % p.exitcode))
                else:
                    results.append(crashed(a, "worker died (exit code %s)" % p.exitcode))
                conn.close()
            elif time.time() - t0 > job_timeout_s:
                p.kill()
                p.join(5)
                conn.close()
                results.append(crashed(a, "worker exceeded %d s" % job_timeout_s))
            else:
                still.append((p, conn, a, t0))
        running = still
    return results


def _grid_tag(g):
    if not g:
        return ""
    return "[" + ",".join("%s=%s" % (k, _short(v)) for k, v in g.items()) + "]"


def _short(v):
    if isinstance(v, (int, str, bool)) or v is None:
        return str(v)
    n = getattr(v, "__name__", None)
    return n if n else repr(v)[:40]


INT_SAMPLES = [0, 1, -1, 2, 5, 63, 64, -64, -65, 127, 128, 129, 255, 256, -128, -129, 300, 624485, -624485,
               16383, 16384, 2**31 - 1, 2**31, -2**31, 2**32 - 1, 2**32, 2**63 - 1, 2**63, -2**63, 2**64 + 5,
               2**126, -2**126, -2**127, 2**127 - 1, -2**128 - 1, 2**200 + 7, -2**200 - 7]
INT_SAMPLES_WIDE = sorted(set(INT_SAMPLES + [s * (2**k) + d for k in range(0, 72) for d in (-1, 0, 1) for s in (1, -1)]))


def auto_samples(ct, g, rnd, n=24):
    """Concrete inputs for native contract evaluation (simple param kinds only)."""
    if ct.make is not None and not getattr(ct, "sample_inputs", None):
        return []
    if getattr(ct, "sample_inputs", None):
        return ct.sample_inputs(g, rnd)
    names = [k for k in ct.params if k not in g]
    out = []
    for _ in range(n):
        d = {}
        for k in names:
            kind = ct.params[k]
            kk = kind[0] if isinstance(kind, tuple) else kind
            if kk == "int":
                d[k] = rnd.choice((INT_SAMPLES_WIDE if n > 100 else INT_SAMPLES) + [rnd.randint(-2**70, 2**70), rnd.randint(-300, 300)])
            elif kk == "nat":
                d[k] = abs(rnd.choice(INT_SAMPLES + [rnd.randint(0, 2**70), rnd.randint(0, 300)]))
            elif kk == "range":
                lo, hi = kind[1], kind[2]
                d[k] = rnd.choice([lo, hi - 1, (lo + hi) // 2, rnd.randrange(lo, hi), rnd.randrange(lo, hi)])
            elif kk == "bool":
                d[k] = rnd.choice([True, False])
            elif kk in ("bytes", "bytearray", "bytelist"):
                ln = rnd.choice([0, 1, 2, 3, 5, 16, 31, 32, 33, 70])
                items = [rnd.randrange(256) for _ in range(ln)]
                if items and rnd.random() < 0.6:
                    # special byte values at the ends (whitespace, NUL, 0xFF, framing characters)
                    items[-1] = rnd.choice([0x20, 0x0A, 0x09, 0x0D, 0x00, 0xFF, 0x7D, 0x23, 0x24, 0x2A, 0x30])
                    if rnd.random() < 0.5:
                        items[0] = rnd.choice([0x20, 0x0A, 0x00, 0xFF, 0x7D, 0x23, 0x24])
                d[k] = {"__bytes__": items} if kk == "bytes" else ({"__bytearray__": items} if kk == "bytearray" else items)
            elif kk == "list":
                ln = rnd.choice([0, 1, 2, 3, 5])
                lo, hi = (kind[1], kind[2]) if isinstance(kind, tuple) and len(kind) == 3 else (-1000, 1000)
                d[k] = [rnd.randrange(lo, hi) for _ in range(ln)]
            else:
                return out
        out.append(d)
    return out


def main(argv=None):
    ap = argparse.ArgumentParser()
    ap.add_argument("prop", nargs="?")
    ap.add_argument("--tier", default=os.environ.get("VERIF_TIER", "quick"))
    ap.add_argument("--replay")
    ap.add_argument("--jobs", type=int, default=int(os.environ.get("PYVC_JOBS", "16")))
    ap.add_argument("--only", default=None, help="substring filter on contract labels (debugging)")
    ap.add_argument("--no-evidence", action="store_true")
    args = ap.parse_args(argv)
    if args.replay:
        return replay_file(args.replay)
    prop = args.prop
    seed = int(os.environ.get("VERIF_SEED", "0") or 0)
    rnd = random.Random(seed)
    t0 = time.time()
    os.environ["PYVC_TIER"] = args.tier
    modname = "contracts." + prop.lower()
    try:
        mod = importlib.import_module(modname)
    except Exception:
        traceback.print_exc()
        print("CHECKER-ERROR: cannot load contracts for %s" % prop)
        return 3
    _attach_known(mod, prop)
    mod._known_attached = True
    contracts = mod.CONTRACTS
    timeout_ms = 20000 if args.tier == "quick" else 60000
    jobs = []
    for ci, ct in enumerate(contracts):
        if args.only and args.only not in ct.label:
            continue
        for gi in range(len(ct.grid)):
            jobs.append((modname, ci, gi, timeout_ms))
    results = []
    if jobs:
        nproc = max(1, min(args.jobs, len(jobs)))
        results = _run_jobs(jobs, nproc, job_timeout_s=(900 if args.tier == "quick" else 7200))
    results.sort(key=lambda r: (r["ci"], r["gi"]))

    from pyvc.engine import replay_native
    obligations = {}
    undecided = []
    errors = []
    violations = []
    functions = {}
    by_backend = {}
    solver_time = 0.0
    paths = 0
    native_evals = 0
    samples_out = []
    for r in results:
        ct = contracts[r["ci"]]
        g = ct.grid[r["gi"]]
        tag = _grid_tag(g)
        paths += r.get("paths", 0)
        solver_time += r.get("solver_time", 0.0)
        functions.setdefault(ct.label, {"target": ct.target, "source_sha256_16": r.get("source_hash"),
                                        "grid_points": 0, "loops_with_invariant": sorted(ct.loops)})
        functions[ct.label]["grid_points"] += 1
        for u in r.get("undecided", []):
            undecided.append("%s%s: %s" % (ct.label, tag, u))
        for e in r.get("errors", []):
            errors.append("%s%s: %s" % (ct.label, tag, e))
        if not r.get("obligations") and not r.get("errors") and not r.get("undecided"):
            errors.append("%s%s: zero obligations generated (vacuous)" % (ct.label, tag))
        for name, o in r.get("obligations", {}).items():
            full = "%s/%s/%s%s" % (prop, ct.label, name, tag)
            obligations[full] = o
            for b, n in o.get("backends", {}).items():
                by_backend[b] = by_backend.get(b, 0) + n
            if o["status"] == "refuted":
                violations.append({"obligation": full, "ci": r["ci"], "gi": r["gi"], "model": o.get("model"),
                                   "model_text": o.get("model_text"), "goal": o.get("goal")})
            elif o["status"] == "unknown":
                undecided.append("%s: solver unknown (%s)" % (full, o.get("reason")))
        # native contract evaluation on samples (T1/T2 differential + vacuity guard)
        cand = []
        if r.get("witness"):
            cand.append(r["witness"])
        cand.extend(auto_samples(ct, g, rnd, 24 if args.tier == "quick" else 200))
        ok_count = 0
        native_failed = False
        for inp in cand:
            try:
                ok, detail = replay_native(ct, g, inp)
            except Undecided as e:
                # the contract cannot judge this code on this input (e.g. a recording stub met state it does not model):
                # undecided, never a violation
                if not any(str(e) in u for u in undecided):
                    undecided.append("%s%s: native evaluation undecided: %s" % (ct.label, tag, e))
                continue
            except Exception as e:
                errors.append("%s%s: native sample crashed: %r" % (ct.label, tag, e))
                continue
            if ok is None:
                continue
            native_evals += 1
            if ok:
                ok_count += 1
                if len(samples_out) < 12 and ok_count == 1:
                    samples_out.append({"contract": ct.label + tag, "native_sample": detail})
            else:
                # a real failing input, replayed on the real code
                kn = _known_match_native(ct, g, inp)
                if kn is None and not native_failed:
                    native_failed = True
                    violations.append({"obligation": "%s/%s/native-contract-evaluation%s" % (prop, ct.label, tag),
                                       "ci": r["ci"], "gi": r["gi"], "model": inp, "native": detail})
        functions[ct.label].setdefault("native_samples_ok", 0)
        functions[ct.label]["native_samples_ok"] += ok_count
        # declared concrete cases (non-integer inputs etc.)
        for case in ct.concrete_cases:
            native_evals += 1
            ok, msg = _run_concrete_case(ct, case)
            full = "%s/%s/concrete-case:%s" % (prop, ct.label, msg)
            obligations[full] = {"status": "proved" if ok else "refuted", "instances": 1, "time": 0.0,
                                 "backends": {"native": 1}}
            by_backend["native"] = by_backend.get("native", 0) + 1
            if not ok:
                violations.append({"obligation": full, "ci": r["ci"], "gi": r["gi"], "model": {"case": repr(case)}})

    # lemmas (pure spec-level obligations)
    for lem in getattr(mod, "LEMMAS", []):
        if args.only and args.only not in lem.name:
            continue
        st, info = lem.run(timeout_ms)
        full = "%s/lemma/%s" % (prop, lem.name)
        obligations[full] = {"status": st, "instances": 1, "time": info.get("time", 0.0), "backends": {info.get("backend", "z3"): 1}}
        solver_time += info.get("time", 0.0)
        by_backend[info.get("backend", "z3")] = by_backend.get(info.get("backend", "z3"), 0) + 1
        # a scripted lemma: every proof step is its own solver query / obligation
        for sp in info.get("steps", []):
            obligations["%s/step:%s" % (full, sp["step"])] = {
                "status": sp["status"] if sp["status"] != "refuted" else "unknown", "instances": 1,
                "time": sp["time"], "backends": {sp["backend"]: 1}}
            by_backend[sp["backend"]] = by_backend.get(sp["backend"], 0) + 1
        if st == "refuted":
            violations.append({"obligation": full, "ci": None, "gi": None, "model": info.get("model"), "model_text": info.get("model_text")})
        elif st == "unknown":
            undecided.append("%s: solver unknown" % full)

    # bounded stand-ins (never counted as proved)
    bounded = None
    if hasattr(mod, "bounded"):
        try:
            bounded = mod.bounded(args.tier, rnd)
        except Exception as e:
            errors.append("bounded stand-in crashed: " + "".join(traceback.format_exception(type(e), e, e.__traceback__))[-2000:])
            bounded = None
        if bounded:
            kb = [d["input"] for d in load_known(prop) if d.get("bounded")]
            for v in bounded.get("violations", []):
                if v.get("input") in kb:
                    continue
                violations.append({"obligation": "%s/bounded/%s" % (prop, v["name"]), "ci": None, "gi": None,
                                   "model": v.get("input"), "native": v, "bounded": True})

    # ---- refuted obligations: replay on the real code
    os.makedirs(os.path.join(VERIF, "replays"), exist_ok=True)
    vio_lines = []
    seen_contract = set()
    for v in violations:
        key = (v["obligation"].split("/")[1] if v["ci"] is not None else v["obligation"], v["gi"])
        rp = {"property": prop, "obligation": v["obligation"], "solver_model": v.get("model"),
              "solver_output": v.get("model_text"), "goal": v.get("goal")}
        suffix = ""
        if v.get("bounded"):
            rp["bounded"] = True
        if v.get("native") is not None:
            rp["replayed"] = True
            rp["native"] = v["native"]
            rp["contract_index"], rp["grid_index"] = v["ci"], v["gi"]
            rp["inputs"] = v.get("model")
        elif v["ci"] is not None and v.get("model"):
            ct = contracts[v["ci"]]
            g = ct.grid[v["gi"]]
            try:
                ok, detail = replay_native(ct, g, v["model"])
            except Exception as e:
                ok, detail = None, "replay crashed: %r" % (e,)
            rp["contract_index"], rp["grid_index"] = v["ci"], v["gi"]
            rp["inputs"] = v["model"]
            if ok is False:
                rp["replayed"] = True
                rp["native"] = detail
            else:
                # model does not replay (e.g. unreachable loop state): search natively
                found = None
                for inp in auto_samples(ct, g, random.Random(seed + 1), 3000):
                    try:
                        ok2, d2 = replay_native(ct, g, inp)
                    except Exception:
                        continue
                    if ok2 is False and _known_match_native(ct, g, inp) is None:
                        found = (inp, d2)
                        break
                if found:
                    rp["replayed"] = True
                    rp["inputs"] = found[0]
                    rp["native"] = found[1]
                    rp["note"] = "solver model was not a reachable input; failing input found by native search"
                else:
                    rp["replayed"] = False
                    rp["note"] = "no failing input found; solver model attached (model replay: %s)" % (detail,)
                    suffix = " no-failing-input-found"
        else:
            rp["replayed"] = False
            suffix = " no-failing-input-found"
        fname = "%s_%s.json" % (prop, abs(hash(v["obligation"])) % (10**8))
        import hashlib
        fname = "%s_%s.json" % (prop, hashlib.sha256(v["obligation"].encode()).hexdigest()[:10])
        path = os.path.join(VERIF, "replays", fname)
        with open(path, "w") as f:
            json.dump(rp, f, indent=1, default=repr)
        vio_lines.append("VIOLATION property=%s replay=%s obligation=%s%s" % (prop, path, v["obligation"].replace(" ", "_"), suffix))

    # ---- known findings: confirm they still reproduce
    known_lines = []
    for d in load_known(prop):
        if d.get("bounded") and hasattr(mod, "replay_bounded"):
            try:
                ok, detail = mod.replay_bounded(d["input"])
            except Exception as e:
                ok, detail = None, repr(e)
            if ok is False:
                known_lines.append("KNOWN-FINDING: property=%s id=%s %s | input %s" % (prop, d["id"], d["what"], json.dumps(d["input"])))
            else:
                known_lines.append("NOTE: known finding %s no longer reproduces on its input (%s)" % (d["id"], detail))
            continue
        for ct in contracts:
            if ct.label != d["contract"]:
                continue
            gidx = d.get("grid_index", 0)
            g = ct.grid[gidx] if gidx < len(ct.grid) else {}
            try:
                ok, detail = replay_native(ct, g, d["witness"])
            except Exception as e:
                ok, detail = None, repr(e)
            if ok is False:
                known_lines.append("KNOWN-FINDING: property=%s id=%s %s | witness %s -> %s" % (
                    prop, d["id"], d["what"], json.dumps(d["witness"]), (detail.get("observed") if isinstance(detail, dict) else detail)))
            else:
                known_lines.append("NOTE: known finding %s no longer reproduces on its witness (%s)" % (d["id"], detail if ok is None else "contract holds"))

    # shape-bounded contracts (fixed object-graph shape, symbolic leaves) are bounded stand-ins:
    # reported separately, never counted in obligations/discharged
    blabels = set(getattr(mod, "BOUNDED_LABELS", []))
    sb = {k: o for k, o in obligations.items() if k.split("/")[1] in blabels} if blabels else {}
    # labels may contain '/', so match by prefix as well
    if blabels:
        for k, o in obligations.items():
            if any(k.startswith("%s/%s/" % (prop, lb)) for lb in blabels):
                sb[k] = o
    counted = {k: o for k, o in obligations.items() if k not in sb}
    n_obl = len(counted)
    n_proved = sum(1 for o in counted.values() if o["status"] == "proved")
    wall = time.time() - t0
    level = getattr(mod, "LEVEL", "proof")
    coverage = {
        "obligations": n_obl,
        "discharged": n_proved,
        "checker_cmd": "PYTHONPATH=/repo python3-vt -m pyvc.runner %s --tier %s" % (prop, args.tier),
        "trusted_base": TRUSTED_BASE + list(getattr(mod, "ASSUMED", [])),
        "functions_under_contract": functions,
        "by_backend": by_backend,
        "solver_time_s": round(solver_time, 3),
        "paths": paths,
        "native_contract_evaluations": native_evals,
        "undecided": undecided[:50],
        "known_findings": [d["id"] for d in load_known(prop)],
        "not_covered": getattr(mod, "NOT_COVERED", []),
        "dropped_by_extraction": ["logger calls are executed as-is (no effect on program state)",
                                  "exception messages (types are checked, text is not)",
                                  "type annotations and docstrings"],
        "samples": (samples_out + [{"obligation": k, "status": o["status"], "instances": o.get("instances"),
                                    "time_s": round(o.get("time", 0.0), 3)} for k, o in list(obligations.items())[:25]])[:40],
        "obligation_names": sorted(obligations)[:2000],
        "solver_budget_ms": timeout_ms,
        "slowest_obligations": [{"obligation": k, "slowest_query_s": round(o.get("tmax", o.get("time", 0.0)), 2),
                                 "time_s": round(o.get("time", 0.0), 2), "instances": o.get("instances")}
                                for k, o in sorted(obligations.items(), key=lambda kv: -kv[1].get("tmax", kv[1].get("time", 0.0)))[:8]],
    }
    if sb:
        coverage["shape_bounded"] = {
            "note": "bounded stand-in: real objects of a fixed small shape with symbolic integer/byte-sequence leaves; not counted in obligations/discharged",
            "contracts": sorted(blabels), "obligations": len(sb),
            "discharged": sum(1 for o in sb.values() if o["status"] == "proved"),
            "bounds": getattr(mod, "BOUNDS_TEXT", "see grid of the listed contracts")}
    if bounded:
        b = dict(bounded)
        b.pop("violations", None)
        coverage["bounded"] = b
        coverage["evaluations"] = b.get("evaluations", 0)
        coverage["distinct_nontrivial"] = b.get("distinct_nontrivial", 0)
        coverage["rule"] = b.get("rule", "")
        coverage["samples"] = (list(b.get("samples", [])) + coverage["samples"])[:40]
        if "exhaustive" in b:
            coverage["exhaustive"] = b["exhaustive"]
    if level != "proof":
        coverage.setdefault("evaluations", paths + native_evals)
        coverage.setdefault("distinct_nontrivial", paths)
        coverage.setdefault("rule", "evaluations = symbolic paths of the real code explored to completion (each path covers every integer / "
                                    "byte-sequence value satisfying its path condition) + native runs of the real code on concrete samples with the "
                                    "contract evaluated; distinct_nontrivial = number of symbolic paths (distinct feasible path conditions, each "
                                    "with at least one obligation); shapes enumerated exhaustively up to the stated bound")
        coverage.setdefault("exhaustive", True)
    ev = {"property_id": prop, "tier": args.tier, "seed": seed, "level": level, "coverage": coverage,
          "assumptions": list(getattr(mod, "ASSUMED", [])) + list(getattr(mod, "NOT_COVERED", [])),
          "wall_s": round(wall, 3), "violations": len(vio_lines)}
    if not args.no_evidence and not args.only:
        os.makedirs(os.path.join(VERIF, "evidence"), exist_ok=True)
        with open(os.path.join(VERIF, "evidence", prop + ".json"), "w") as f:
            json.dump(ev, f, indent=1, default=repr)

    # ledger: which obligations were discharged on the unchanged tree
    ledger_path = os.path.join(VERIF, "ledger", prop + ".json")
    newly_failing = []
    if os.path.exists(ledger_path):
        led = json.load(open(ledger_path))
        was = set(led.get(args.tier, led.get("quick", [])))
        for k in was:
            if k not in obligations:
                continue
    if os.environ.get("PYVC_WRITE_LEDGER") and not vio_lines and not undecided and not errors:
        os.makedirs(os.path.dirname(ledger_path), exist_ok=True)
        led = json.load(open(ledger_path)) if os.path.exists(ledger_path) else {}
        led[args.tier] = sorted(obligations)
        json.dump(led, open(ledger_path, "w"), indent=0)

    print("%s tier=%s: %d obligations, %d proved, %d refuted, %d undecided; %d paths; %d functions; solver %.1fs; wall %.1fs%s" % (
        prop, args.tier, n_obl, n_proved, len(violations), len(undecided), paths, len(functions), solver_time, wall,
        ("; shape-bounded (not counted): %d/%d" % (sum(1 for o in sb.values() if o["status"] == "proved"), len(sb))) if sb else ""))
    for l in known_lines:
        print(l)
    for l in vio_lines:
        print(l)
    if vio_lines:
        for u in undecided[:15]:
            print("UNDECIDED:", u[:400])
        for e in errors[:5]:
            print("CHECKER-ERROR:", e[:600])
        return 1
    if errors:
        for e in errors[:20]:
            print("CHECKER-ERROR:", e)
        return 3
    if undecided:
        for u in undecided[:30]:
            print("UNDECIDED:", u)
        return 2
    return 0


def _known_match_native(ct, g, inp):
    """Is this concrete failing input inside a known-finding region?"""
    from pyvc.engine import Env, unjson
    for kf in ct.known:
        env = Env({k: unjson(v) for k, v in inp.items()})
        if ct.replay_args:
            try:
                env.update(ct.replay_args(g, dict(env)).get("env", {}))
            except Exception:
                pass
        for k, v in g.items():
            env.setdefault(k, v)
        try:
            if bool(kf.region(env)):
                return kf
        except Exception:
            continue
    return None


def _run_concrete_case(ct, case):
    from pyvc.engine import resolve
    _, _, fn = resolve(ct.target)
    exp = case.get("raises")
    try:
        r = fn(*case["args"])
    except Exception as e:
        if exp is not None and isinstance(e, exp):
            return True, "%r raises %s" % (case["args"], exp.__name__)
        return False, "%r raised %r" % (case["args"], e)
    if exp is not None:
        return False, "%r should raise %s" % (case["args"], exp.__name__)
    if "returns" in case and r != case["returns"]:
        return False, "%r returned %r" % (case["args"], r)
    return True, "%r ok" % (case["args"],)


def replay_file(path):
    rp = json.load(open(path))
    prop = rp["property"]
    mod = importlib.import_module("contracts." + prop.lower())
    _attach_known(mod, prop)
    from pyvc.engine import replay_native
    if rp.get("bounded") and hasattr(mod, "replay_bounded"):
        ok, detail = mod.replay_bounded(rp.get("inputs"))
        print(json.dumps(detail, indent=1, default=repr))
        if ok is False:
            print("VIOLATION property=%s replay=%s" % (prop, path))
            return 1
        print("input does not violate the contract on this tree")
        return 0
    if rp.get("contract_index") is None or not rp.get("inputs"):
        print("replay file carries no concrete input (obligation %s); solver output:\n%s" % (rp["obligation"], rp.get("solver_output")))
        return 2
    ct = mod.CONTRACTS[rp["contract_index"]]
    g = ct.grid[rp["grid_index"]]
    ok, detail = replay_native(ct, g, rp["inputs"])
    print(json.dumps(detail, indent=1, default=repr))
    if ok is False:
        print("VIOLATION property=%s replay=%s" % (prop, path))
        return 1
    print("input does not violate the contract on this tree")
    return 0


if __name__ == "__main__":
    try:
        _rc = main()
    except SystemExit:
        raise
    except BaseException as _e:      # a crash of the checker is exit 3, never exit 1 (which means: violation)
        traceback.print_exc()
        print("CHECKER-ERROR: the checker itself crashed: %r" % (_e,))
        _rc = 3
    sys.exit(_rc)
