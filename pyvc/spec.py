"""Executable specification functions and polymorphic logical helpers.

A spec function is written once in Python using `ite(c, lambda: a, lambda: b)`
for case distinction.  On concrete arguments it runs as plain Python (used for
replay and run-time checking); on symbolic arguments it becomes an application
of a z3 RecFunction whose definition is obtained by running the *same* body on
symbolic formals (recursive calls become applications).
"""
import z3
from . import sym as S
from .sym import SymInt, SymBool, SymSeq, mk, mkb, as_z3_int, as_z3_bool, is_sym


def _to_z3(v, sort):
    if sort == "int":
        return as_z3_int(v)
    if sort == "bool":
        return as_z3_bool(v)
    if sort == "seq":
        return SymSeq.lift(v).e
    raise ValueError(sort)


def _wrap(e, sort):
    if sort == "int":
        return mk(e)
    if sort == "bool":
        return mkb(e)
    if sort == "seq":
        return SymSeq(e, "list")
    raise ValueError(sort)


_Z3SORT = {"int": z3.IntSort(), "bool": z3.BoolSort(), "seq": S.ISeq}

ALL_SPECS = {}


class SpecFn:
    def __init__(self, pyfn, args, ret):
        self.py = pyfn
        self.name = pyfn.__name__
        self.args = args
        self.ret = ret
        self.f = z3.RecFunction("spec_" + self.name, *([_Z3SORT[a] for a in args] + [_Z3SORT[ret]]))
        self._defined = False
        ALL_SPECS[self.name] = self

    def _define(self):
        if self._defined:
            return
        self._defined = True
        formals = [z3.Const("%s!%s%d" % (self.name, a, i), _Z3SORT[a]) for i, a in enumerate(self.args)]
        wrapped = [_wrap(f, a) if a != "int" else SymInt(f) for f, a in zip(formals, self.args)]
        body = self.py(*wrapped)
        z3.RecAddDefinition(self.f, formals, _to_z3(body, self.ret))

    def __call__(self, *args):
        if any(is_sym(a) for a in args):
            self._define()
            return _wrap(self.f(*[_to_z3(a, s) for a, s in zip(args, self.args)]), self.ret)
        return self.py(*args)


def spec(args, ret):
    def deco(fn):
        return SpecFn(fn, args, ret)
    return deco


# ------------------------------------------------------------ logical helpers

def ite(c, a, b):
    """if-then-else with lazily evaluated branches (lambdas)."""
    if isinstance(c, SymBool):
        va, vb = a(), b()
        if isinstance(va, (SymSeq, list, tuple, bytes, bytearray)) or isinstance(vb, (SymSeq, list, tuple, bytes, bytearray)):
            return SymSeq(z3.If(c.e, SymSeq.lift(va).e, SymSeq.lift(vb).e), "list")
        if isinstance(va, (SymBool, bool)) and isinstance(vb, (SymBool, bool)):
            return mkb(z3.If(c.e, as_z3_bool(va), as_z3_bool(vb)))
        return mk(z3.If(c.e, as_z3_int(va), as_z3_int(vb)))
    return a() if c else b()


def not_(a):
    if isinstance(a, SymBool):
        return mkb(z3.Not(a.e))
    if isinstance(a, SymInt):
        return mkb(a.e == 0)
    return not a


def and_(*xs):
    if any(isinstance(x, (SymBool, SymInt)) for x in xs):
        return mkb(z3.And(*[as_z3_bool(x) for x in xs]))
    return all(xs)


def or_(*xs):
    if any(isinstance(x, (SymBool, SymInt)) for x in xs):
        return mkb(z3.Or(*[as_z3_bool(x) for x in xs]))
    return any(xs)


def implies(a, b):
    return or_(not_(a), b)


def iff(a, b):
    if isinstance(a, (SymBool, SymInt)) or isinstance(b, (SymBool, SymInt)):
        return mkb(as_z3_bool(a) == as_z3_bool(b))
    return bool(a) == bool(b)


def seq(*xs):
    """A list value usable in specs (concrete list or symbolic sequence)."""
    if any(is_sym(x) for x in xs):
        return SymSeq.from_list(list(xs), "list")
    return list(xs)


def cat(a, b):
    if isinstance(a, SymSeq) or isinstance(b, SymSeq):
        return SymSeq.lift(a, "list") + SymSeq.lift(b, "list")
    return list(a) + list(b)


def seq_eq(a, b):
    """Element-wise equality of two int sequences irrespective of container."""
    if isinstance(a, SymSeq) or isinstance(b, SymSeq):
        return SymSeq.lift(a, "list") == SymSeq.lift(b, "list")
    return list(a) == list(b)


def length(a):
    if isinstance(a, SymSeq):
        return a._len()
    return len(a)


def pow2(n):
    if isinstance(n, SymInt):
        r = mk(S.pow2f(n.e))
        if isinstance(r, SymInt):
            r.pow2of = n.e
            r.lowzeros = n.e
        return r
    return 1 << n


def fdiv(a, b):
    """Python floor division (polymorphic)."""
    return a // b


def tdiv(a, b):
    """Division truncating toward zero (b != 0)."""
    # |a| div |b| with the sign of a*b  (the textbook definition; no products of
    # two unknowns, so the solver stays in linear arithmetic + div/mod)
    q = abs(a) // abs(b)
    return ite(iff(a < 0, b < 0), lambda: q, lambda: -q)


def trem(a, b):
    """Remainder of division truncating toward zero: sgn(a) * (|a| mod |b|)
    (equivalently a - b*tdiv(a, b); cross-checked concretely in pyvc.selftest)."""
    r = abs(a) % abs(b)
    return ite(a < 0, lambda: -r, lambda: r)


def chain_spec(k, K, fn):
    """fn(k) for k in range(K); symbolic k (known to lie in range(K)) becomes an
    If-chain over the K cases."""
    if isinstance(k, (SymInt, SymBool)):
        ek = as_z3_int(k)
        e = as_z3_int(fn(K - 1))
        for j in range(K - 2, -1, -1):
            e = z3.If(ek == j, as_z3_int(fn(j)), e)
        return mk(e)
    return fn(k)


def bsum(xs):
    r = 0
    for x in xs:
        r = r + x
    return r


def b2i(c):
    """bool -> 0/1 (polymorphic)"""
    if isinstance(c, SymBool):
        return mk(z3.If(c.e, z3.IntVal(1), z3.IntVal(0)))
    return 1 if c else 0


def bit(v, i):
    """bit i (concrete i) of v in infinite two's complement"""
    return (v // (1 << i)) % 2


def tier():
    import os
    return os.environ.get("PYVC_TIER", "quick")


def pick(x, K):
    """Concretise x, known/expected to lie in range(K) with small K: on proxies
    this forks one path per value (values outside range(K) stay symbolic and the
    caller must treat a non-int result as a failed check)."""
    if isinstance(x, SymBool):
        x = x._int()
    if isinstance(x, SymInt):
        c = S.ctx()
        r = c.choose(x.e, range(K))
        return x if r is None else r
    return x


def nth(s, i):
    """s[i] without a bounds check (spec-level: unspecified outside the sequence; use under a guard)"""
    if isinstance(s, SymSeq):
        return mk(s.e[as_z3_int(i)])
    return s[i]


def _slen(e):
    """length of a sequence term as integer arithmetic over the lengths of its atomic sub-terms"""
    if z3.is_app(e):
        k = e.decl().kind()
        if k == z3.Z3_OP_SEQ_CONCAT:
            r = z3.IntVal(0)
            for ch in e.children():
                r = r + _slen(ch)
            return r
        if k == z3.Z3_OP_SEQ_UNIT:
            return z3.IntVal(1)
        if k == z3.Z3_OP_SEQ_EMPTY:
            return z3.IntVal(0)
        if k == z3.Z3_OP_SEQ_EXTRACT:
            src, a, l = e.arg(0), e.arg(1), e.arg(2)
            ls = _slen(src)
            return z3.If(z3.Or(a < 0, a >= ls, l <= 0), z3.IntVal(0), z3.If(a + l > ls, ls - a, l))
    return z3.Length(e)


def _sat(e, ke):
    """element ke of a sequence term (unspecified outside its bounds), resolved structurally"""
    if z3.is_app(e):
        k = e.decl().kind()
        if k == z3.Z3_OP_SEQ_CONCAT:
            off = z3.IntVal(0)
            cases = []
            for ch in e.children():
                ln = _slen(ch)
                cases.append((off + ln, _sat(ch, ke - off)))
                off = off + ln
            r = cases[-1][1]
            for hi, v in reversed(cases[:-1]):
                r = z3.If(ke < hi, v, r)
            return r
        if k == z3.Z3_OP_SEQ_UNIT:
            return e.arg(0)
        if k == z3.Z3_OP_SEQ_EXTRACT:
            return _sat(e.arg(0), e.arg(1) + ke)
    rep = S.ctx().ghost.get("rep_consts", {}) if S.active() else {}
    if e.get_id() in rep:
        return z3.IntVal(rep[e.get_id()])
    return e[ke]


def seq_len(s):
    """len(s) as arithmetic over atomic lengths (see seq_at)"""
    if not isinstance(s, SymSeq):
        return len(s)
    return mk(z3.simplify(_slen(s.e)))


def seq_at(s, k):
    """s[k] (no bounds check) with concatenations and slices resolved structurally: the solver only sees `nth`
    of atomic sequence terms plus linear arithmetic (z3 is slow on nth / length of nested concat / extract)."""
    if not isinstance(s, SymSeq):
        return s[k]
    return mk(z3.simplify(_sat(s.e, as_z3_int(k))))
