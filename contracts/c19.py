"""C19 -- Motorola S-records (ppci/format/srecord.py).

Spec reader `SrecReader` = the standard S-record decoding rules (count, one's
complement checksum, big-endian address of 2/3/4 bytes for S1/S2/S3, S0 header,
S9/S8/S7 termination matching S1/S2/S3).  The writer is correct iff feeding its
lines to the reader reconstructs exactly the code bytes at addresses 0.. .
Hex text is abstract (assumed inverse pair hexlify/unhexlify, T4).
"""
import z3
from pyvc.engine import Contract, Loop, make_value, Env
from pyvc.spec import and_, or_, not_, implies, ite, seq_eq, length, cat, tier
from pyvc.sym import SymSeq, SymInt, SymBool, ctx, mkb, Undecided
from pyvc import sym as S
from pyvc import models as MD

M = "ppci.format.srecord"
ASZ = {0: 2, 1: 2, 2: 3, 3: 4, 5: 2, 6: 3, 7: 4, 8: 3, 9: 2}


def be(s, n):
    """big-endian value of the first n items of s"""
    r = 0
    for i in range(n):
        r = r * 256 + s[i]
    return r


def _setup(g):
    import ppci.format.srecord as sr
    old = (sr.binascii, sr.chunks)
    sr.binascii = MD.binascii_proxy
    sr.chunks = MD.chunks_model

    def undo():
        sr.binascii, sr.chunks = old
    return undo


CONTRACTS = []

# ---- value_to_bytes_big_endian ------------------------------------------------
CONTRACTS.append(Contract(
    "ppci.utils.bitfun:value_to_bytes_big_endian", "C19", params={"value": "int", "size": "int"},
    grid=[{"size": n} for n in (1, 2, 3, 4, 8)],
    requires=lambda e: [e.value >= 0, e.value < (1 << (8 * e.size))],
    ensures=lambda e: [("len(result) == size", length(e.result) == e.size),
                       ("result is bytes", isinstance(e.result, bytes) or (isinstance(e.result, SymSeq) and e.result.kind == "bytes")),
                       ("big-endian value of result == value", be(e.result, e.size) == e.value)],
))


# ---- chunks (producer-style generator: yield -> ghost append) -------------------
def _chunks_on_yield(fg, piece, c, old):
    n = length(fg.ycat)
    c.oblige("yield:piece starts at a multiple of size", n % old.size == 0)
    c.oblige("yield:piece == data[n:n+size]", seq_eq(piece, old.data[n:n + old.size]))
    c.oblige("yield:piece is not empty", length(piece) > 0)
    fg.ycat = cat(fg.ycat, piece)


def _chunks_call(fn, env, args, kwargs):
    r = fn(env.data, env.size)
    if r is not None:        # native replay: a real generator
        pieces = list(r)
        env["pieces"] = pieces
        return pieces
    return None


def _chunks_post(e):
    if e.result is not None:
        pieces = e.result
        ok = all(len(p) > 0 for p in pieces) and all(p == e.data[i * e.size:(i + 1) * e.size] for i, p in enumerate(pieces))
        return [("pieces are data[k*size:(k+1)*size], non-empty", ok),
                ("concatenation of the pieces == data", b"".join(bytes(p) for p in pieces) == bytes(e.data))]
    return [("concatenation of the pieces == data", seq_eq(e.fg.ycat, e.old.data))]


CONTRACTS.append(Contract(
    "ppci.utils.chunk:chunks", "C19", params={"data": "bytes", "size": "int"},
    grid=[{"size": n} for n in (1, 8, 16, 30, 32)],
    call=_chunks_call,
    fghost_init=lambda old: {"ycat": SymSeq(S.empty_seq(), "bytes", (0, 256))},
    on_yield=_chunks_on_yield,
    ensures=_chunks_post,
    loops={0: Loop(
        havoc={"it0__": "rangeiter"},
        fghost_havoc={"ycat": "bytes"},
        invariant=lambda e: [("yielded so far == data[:i]", seq_eq(e.fg.ycat, e.old.data[:e.it0__.cur])),
                             ("i is a multiple of size", e.it0__.cur % e.old.size == 0),
                             ("i >= 0", e.it0__.cur >= 0)],
    )},
))


# ---- SRecord.to_line ----------------------------------------------------------------
def _mk_rec(c, g):
    asz = ASZ[g["typ"]]
    address = make_value(("range", 0, 1 << (8 * asz)), "address", c)
    data = make_value("bytes", "data", c)
    return {"args": [], "env": {"address": address, "data": data}, "inputs": {"address": address, "data": data}}


def _rec_call(fn, env, args, kwargs):
    from ppci.format.srecord import SRecord
    return SRecord(env.typ, env.address, env.data).to_line()


def parse_line(line):
    """(typ, record bytes) of one S-record line"""
    if not (isinstance(line, str) and len(line) >= 2 and line[0] == "S" and line[1] in "0123456789"):
        return None, None
    return int(line[1]), MD.unhex_text(line[2:])


def _rec_post(e):
    typ, R = parse_line(e.result)
    if typ is None:
        return [("line is S<typ><hex>", False)]
    asz = ASZ[e.typ]
    n = length(R)
    return [("record type digit", typ == e.typ),
            ("hex text is upper case", MD.is_upper_hex(e.result)),
            ("count byte == number of following bytes", R[0] == n - 1),
            ("address field is the big-endian address", be(R[1:1 + asz], asz) == e.address),
            ("data field == data", seq_eq(R[1 + asz:-1], e.data)),
            ("checksum == ones' complement of the low byte of the sum", R[-1] == 255 - (MD.seq_sum(R[:-1]) % 256))]


CONTRACTS.append(Contract(
    M + ":SRecord.to_line", "C19", grid=[{"typ": t} for t in sorted(ASZ)],
    make=_mk_rec, call=_rec_call, setup=_setup, modules=["ppci.utils.bitfun"],
    replay_args=lambda g, v: {"args": [], "env": {"address": v["address"], "data": v["data"]}},
    sample_inputs=lambda g, rnd: [{"address": rnd.choice([0, 1, 255, 256, (1 << (8 * ASZ[g["typ"]])) - 1]),
                                   "data": {"__bytes__": [rnd.randrange(256) for _ in range(rnd.choice([0, 1, 3, 16, 30, 250]))] + rnd.choice([[], [0x20], [0x0A], [0x00], [0xFF]])}} for _ in range(16)],
    raises=[(ValueError, lambda e: length(e.data) + ASZ[e.typ] + 1 > 255)],
    ensures=_rec_post,
))


# ---- write_srecord ------------------------------------------------------------------
class SrecReader:
    """Standard S-record reader (specification).  State: image (bytes decoded so
    far, which must be contiguous from address 0), ok (all rules respected)."""
    TERM = {1: 9, 2: 8, 3: 7}

    def __init__(self):
        self.image = SymSeq(S.empty_seq(), "bytes", (0, 256)) if S.active() else b""
        self.ok = True
        self.pending = []
        self.why = []
        self.dtyp = None
        self.terminated = False
        self.headers = 0

    def _req(self, name, cond):
        if isinstance(cond, bool):
            if not cond:
                self.why.append(name)
                self.ok = False
            return
        if S.active():
            self.pending.append((name, cond))     # one obligation per rule
        else:
            self.ok = and_(self.ok, cond)

    def verdict(self):
        """[(name, cond)]: every rule respected"""
        return [("reader accepted every earlier record", self.ok)] + [("record rule: " + n, c) for n, c in self.pending]

    def feed_line(self, line):
        typ, R = parse_line(line)
        if typ is None:
            self._req("malformed line", False)
            return
        n = length(R)
        asz = ASZ.get(typ)
        self._req("no record after the termination record", not self.terminated)
        if asz is None:
            self._req("unknown record type", False)
            return
        self._req("record has count, address and checksum", n >= asz + 2)
        self._req("count", R[0] == n - 1)
        self._req("checksum", R[-1] == 255 - (MD.seq_sum(R[:-1]) % 256))
        if typ == 0:
            self.headers += 1
            self._req("header record comes first", self.dtyp is None)
        elif typ in (1, 2, 3):
            if self.dtyp is None:
                self.dtyp = typ
            self._req("one data record type per file", self.dtyp == typ)
            address = be(R[1:1 + asz], asz)
            self._req("data record address == number of code bytes before it", address == length(self.image))
            self.image = cat(self.image, R[1 + asz:-1]) if S.active() else bytes(self.image) + bytes(R[1 + asz:-1])
        elif typ in (7, 8, 9):
            self.terminated = True
            if self.dtyp is not None:
                self._req("termination record type matches data record type", self.TERM[self.dtyp] == typ)


class _Sec:
    def __init__(self, data):
        self.data = data


class _Obj:
    def __init__(self, data):
        self._s = _Sec(data)

    def get_section(self, name):
        assert name == "code"
        return self._s


def _mk_write(c, g):
    data = make_value("bytes", "data", c)
    f = MD.GhostFile(SrecReader())
    return {"args": [_Obj(data), f], "env": {"data": data, "f": f}, "inputs": {"data": data}}


def _replay_write(g, v):
    data = bytes(v["data"])
    f = MD.GhostFile(SrecReader())
    return {"args": [_Obj(data), f], "env": {"data": data, "f": f}}


def _havoc_file(f, c, name):
    r = f.reader
    r.image = SymSeq(z3.Const(c.fresh_name(name + ".image"), S.ISeq), "bytes", (0, 256))
    r.ok = SymBool(z3.Bool(c.fresh_name(name + ".ok")))
    r.pending = []
    k = z3.Int(c.fresh_name(name + ".dtyp"))
    c.assume(z3.And(k >= 0, k <= 3))
    r.dtyp = None
    for cand in (1, 2, 3):
        if c.decide(k == cand):
            r.dtyp = cand
            break
    r.terminated = False
    return f


def _havoc_chunks(it, c, name):
    if not isinstance(it, MD.SymChunks):
        raise Undecided("write_srecord no longer iterates over chunks(data)")
    it.rem = SymSeq(z3.Const(c.fresh_name(name + ".rem"), S.ISeq), "bytes", (0, 256))
    return it


def _min(a, b):
    return ite(a < b, lambda: a, lambda: b)


def _write_inv(e):
    r = e.f.reader
    return r.verdict() + [
        ("decoded image ++ data still to be written == data", seq_eq(cat(r.image, e.it0__.rem), e.old.data)),
        ("len(image) + len(remaining) == len(data)", length(r.image) + length(e.it0__.rem) == length(e.old.data)),
        ("address == number of bytes written", e.address == length(r.image)),
        ("no termination record yet", not r.terminated),
        ("data records so far have the type chosen for this size", r.dtyp in (None, e.data_typ)),
    ]


def _expected_typ(e):
    rec = e.get("record")
    # the type the writer decided on is the type of the records it builds; the
    # reader checks it is consistent and wide enough (address equality)
    return getattr(rec, "typ", None) if rec is not None and getattr(rec, "typ", None) in (1, 2, 3) else e.f.reader.dtyp


def _write_post(e):
    r = e.f.reader
    return (r.verdict() if S.active() else [("every record respects count/checksum/type/address rules (%s)" % r.why[:2], r.ok)]) + [
            ("decoded image == the code bytes", seq_eq(r.image, e.old.data) if S.active() else bytes(r.image) == bytes(e.data)),
            ("file ends with a termination record", r.terminated),
            ("header information is carried in S0 records only (at most one)", r.headers <= 1)]


CONTRACTS.append(Contract(
    M + ":write_srecord", "C19", make=_mk_write, replay_args=_replay_write, setup=_setup, modules=["ppci.utils.bitfun"],
    sample_inputs=lambda g, rnd: [{"data": {"__bytes__": [rnd.randrange(256) for _ in range(n)] + tail}} for n in (0, 1, 3, 29, 30, 31, 60, 100, 65505, 65506, 65520, 65535, 65536, 65537, 65550, 65551, 65560, 65565, 65566, 65595, 70000) for tail in ([], [0x20], [0x0A, 0x0D])],
    raises=[(ValueError, lambda e: length(e.data) > (1 << 32))],
    ensures=_write_post,
    loops={0: Loop(
        havoc={"address": "int", "it0__": ("object", _havoc_chunks), "f": ("object", _havoc_file)},
        invariant=_write_inv,
    )},
))

ASSUMED = ["T4 binascii.hexlify / bytes.fromhex are an inverse pair (hex text kept abstract)",
           "print(x, file=f) writes str(x) followed by a newline to f"]
NOT_COVERED = ["the section's load address: records are addressed from 0 as the writer does (offsets within the code section)"]
