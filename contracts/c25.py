"""C25 -- dominators, dominance frontiers, post-dominators, reachability (ppci/graph).

No contract within reach of an SMT-backed VC generator can discharge these (Lengauer-Tarjan with path
compression, fix points over node sets): the definitional postconditions are stated here on the real
functions and CHECKED AT RUN TIME -- a bounded stand-in, labelled bounded, never counted as proved:
  * exhaustively on every rooted digraph with up to N nodes (all nodes reachable from the entry),
  * on seeded random graphs of 5..12 nodes (deep ancestor chains exercise path compression).
Postconditions (path-based definitions, computed by node removal):
  dom(b) = {a | every path entry -> b contains a};  idom(b) = the strict dominator dominated by all others;
  dominates / strictly_dominates / interval containment <=> membership in dom;
  DF(x) = {y | x dominates a predecessor of y and x does not strictly dominate y};
  post-dominators = dominators of the reversed graph from the exit (checked when the exit is a sink that every node reaches);
  can_reach(a, b) <=> a path of length >= 1 leads from a to b."""
import itertools
import multiprocessing as mp
import random

CONTRACTS = []
LEVEL = "exploration"
M = "ppci.graph"


def build(n, edges, exit_=None):
    from ppci.graph.cfg import ControlFlowGraph, ControlFlowNode
    g = ControlFlowGraph()
    nodes = [ControlFlowNode(g, name="n%d" % i) for i in range(n)]
    for a, b in edges:
        nodes[a].add_edge(nodes[b])
    g.entry_node = nodes[0]
    g.exit_node = nodes[n - 1 if exit_ is None else exit_]
    return g, nodes


def _reach(succ, start, removed=None):
    if start == removed:
        return set()
    seen = {start}
    work = [start]
    while work:
        x = work.pop()
        for y in succ[x]:
            if y != removed and y not in seen:
                seen.add(y)
                work.append(y)
    return seen


def _dom_sets(n, succ, root):
    """dom[b] by the definition: a dominates b iff removing a disconnects b from the root (or a == b)"""
    allr = _reach(succ, root)
    dom = {b: {b} for b in range(n)}
    for a in range(n):
        r = _reach(succ, root, removed=a)
        for b in allr:
            if b not in r:
                dom[b].add(a)
    return dom, allr


def _idoms(n, dom, root, allr):
    out = {}
    for b in allr:
        if b == root:
            continue
        sd = dom[b] - {b}
        c = [a for a in sd if all(x in dom[a] for x in sd)]
        out[b] = c[0] if len(c) == 1 else ("ambiguous", c)
    return out


def check_graph(n, edges):
    """run-time evaluation of every postcondition on one graph; returns a list of failure descriptions"""
    succ = {i: set() for i in range(n)}
    pred = {i: set() for i in range(n)}
    for a, b in edges:
        succ[a].add(b)
        pred[b].add(a)
    dom, allr = _dom_sets(n, succ, 0)
    if len(allr) != n:
        return None                      # precondition: every node reachable from the entry
    idom = _idoms(n, dom, 0, allr)
    errs = []
    try:
        g, nodes = build(n, edges)
        idx = {nd: i for i, nd in enumerate(nodes)}
        for b in range(n):
            got = g.get_immediate_dominator(nodes[b])
            got = idx[got] if got is not None else None
            if got != idom.get(b):
                errs.append("idom(n%d) == n%s, got n%s" % (b, idom.get(b), got))
        for a in range(n):
            for b in range(n):
                want = a in dom[b]
                if bool(g.dominates(nodes[a], nodes[b])) != want:
                    errs.append("dominates(n%d, n%d) == %s" % (a, b, want))
                if bool(g.strictly_dominates(nodes[a], nodes[b])) != (want and a != b):
                    errs.append("strictly_dominates(n%d, n%d) == %s" % (a, b, want and a != b))
                ia, ib = g.tree_map[nodes[a]].interval, g.tree_map[nodes[b]].interval
                if (ia[0] <= ib[0] and ib[1] <= ia[1]) != want:
                    errs.append("dominator-tree interval of n%d contains that of n%d <=> %s" % (a, b, want))
        g.calculate_dominance_frontier()
        for x in range(n):
            want = {y for y in range(n) if any(x in dom[p] for p in pred[y]) and not (x in dom[y] and x != y)}
            got = {idx[y] for y in g.df[nodes[x]]}
            if got != want:
                errs.append("DF(n%d) == %s, got %s" % (x, sorted(want), sorted(got)))
        for a in range(n):
            want = set()
            for s in succ[a]:
                want |= _reach(succ, s)
            for b in range(n):
                if bool(g.can_reach(nodes[a], nodes[b])) != (b in want):
                    errs.append("can_reach(n%d, n%d) == %s" % (a, b, b in want))
        ex = n - 1
        pdom, rallr = _dom_sets(n, pred, ex)
        # precondition of the post-dominator contract: the exit node is a sink (ppci's CFGs end in a synthetic
        # exit node without successors) and every node reaches it
        if len(rallr) == n and not succ[ex]:
            ipdom = _idoms(n, pdom, ex, rallr)
            for a in range(n):
                for b in range(n):
                    if bool(g.post_dominates(nodes[a], nodes[b])) != (a in pdom[b]):
                        errs.append("post_dominates(n%d, n%d) == %s" % (a, b, a in pdom[b]))
            for b in range(n):
                got = g.get_immediate_post_dominator(nodes[b])
                got = idx[got] if got is not None else None
                if got != ipdom.get(b):
                    errs.append("immediate post-dominator of n%d == n%s, got n%s" % (b, ipdom.get(b), got))
    except Exception as e:
        errs.append("no exception, got %r" % (e,))
    return errs


class _Hang(Exception):
    pass


def _alarm(signum, frame):
    raise _Hang()


def guarded(n, edges):
    """check_graph with a 10 s guard: non-termination is reported as a failed postcondition, it cannot hang the check"""
    import signal
    old = signal.signal(signal.SIGALRM, _alarm)
    try:
        for limit in (10, 120):          # a second, generous attempt: a 10 s overrun on a loaded machine is not a verdict
            signal.alarm(limit)
            try:
                return check_graph(n, edges)
            except _Hang:
                continue
            finally:
                signal.alarm(0)
        return ["terminates (no result within 120 s on a graph of at most 12 nodes)"]
    finally:
        signal.signal(signal.SIGALRM, old)


def _all_graphs(n):
    pairs = [(a, b) for a in range(n) for b in range(n)]
    for mask in range(1 << len(pairs)):
        yield [pairs[i] for i in range(len(pairs)) if (mask >> i) & 1]


def _chunk_exhaustive(args):
    n, lo, hi = args
    pairs = [(a, b) for a in range(n) for b in range(n)]
    ev = 0
    bad = []
    for mask in range(lo, hi):
        edges = [pairs[i] for i in range(len(pairs)) if (mask >> i) & 1]
        r = guarded(n, edges)
        if r is None:
            continue
        ev += 1
        if r and len(bad) < 3:
            bad.append((n, edges, r[0]))
    return ev, bad


def _random_graph(rng, n):
    edges = set()
    for i in range(1, n):
        edges.add((rng.randrange(0, i), i))
    for i in range(0, n - 1):
        edges.add((i, rng.randrange(i + 1, n)))
    for _ in range(rng.randrange(0, 2 * n)):
        edges.add((rng.randrange(n), rng.randrange(n)))
    if rng.random() < 0.7:
        edges = {(a, b) for a, b in edges if a != n - 1}
    return sorted(edges)


def _chunk_random(args):
    seed, count = args
    rng = random.Random(seed)
    ev = 0
    bad = []
    for _ in range(count):
        n = rng.randrange(5, 13)
        edges = _random_graph(rng, n)
        r = guarded(n, edges)
        if r is None:
            continue
        ev += 1
        if r and len(bad) < 3:
            bad.append((n, edges, r[0]))
    return ev, bad


def bounded(tier_name, rnd):
    nmax = 4 if tier_name == "quick" else 5
    nrandom = 40000 if tier_name == "quick" else 400000
    jobs = []
    for n in range(1, nmax + 1):
        if n == 5:
            # n = 5 without self loops (2^20 graphs)
            continue
        total = 1 << (n * n)
        step = max(total // 64, 1)
        for lo in range(0, total, step):
            jobs.append(("ex", (n, lo, min(lo + step, total))))
    seed0 = rnd.randrange(1 << 30)
    per = max(nrandom // 32, 1)
    for k in range(32):
        jobs.append(("rnd", (seed0 + k, per)))
    with mp.get_context("fork").Pool(16) as pool:
        res_ex = pool.map(_chunk_exhaustive, [a for k, a in jobs if k == "ex"])
        res_rnd = pool.map(_chunk_random, [a for k, a in jobs if k == "rnd"])
        res5 = []
        if nmax >= 5:
            res5 = pool.map(_chunk_no_self5, [(i, 64) for i in range(64)])
    _r = random.Random(seed0)
    n_s = _r.randrange(5, 13)
    e_s = _random_graph(_r, n_s)
    ev_ex = sum(r[0] for r in res_ex) + sum(r[0] for r in res5)
    ev_rnd = sum(r[0] for r in res_rnd)
    vio = []
    for ev, bad in res_ex + res5 + res_rnd:
        for (n, edges, what) in bad:
            if len(vio) < 5:
                vio.append({"name": "%s [graph n=%d edges=%s]" % (what, n, edges), "input": {"n": n, "edges": [list(e) for e in edges]}, "observed": what})
    return {"evaluations": ev_ex + ev_rnd, "distinct_nontrivial": ev_ex + ev_rnd, "exhaustive": False,
            "rule": "every digraph with 1..%d nodes (self loops included%s) in which all nodes are reachable from the entry (exhaustive: %d graphs) + %d seeded random "
                    "graphs of 5..12 nodes (seed %d); per graph every definitional postcondition (idom, dominates, strictly_dominates, intervals, dominance "
                    "frontier, reachability, post-dominators when every node reaches the exit) is evaluated; graphs are distinct by construction (exhaustive part) "
                    "or drawn independently (random part)" % (4, "; 5 nodes without self loops" if nmax >= 5 else "", ev_ex, ev_rnd, seed0),
            "bound": "exhaustive up to %d nodes; random up to 12 nodes" % nmax, "exhaustive_graphs": ev_ex, "random_graphs": ev_rnd, "violations": vio,
            "samples": [{"graph": {"n": 4, "edges": [[0, 1], [1, 2], [2, 1], [1, 3]]}, "checked": "idom, dominates, intervals, DF, reach, post-dominators"},
                        {"graph": {"n": n_s, "edges": [list(e) for e in e_s]}, "checked": "idom, dominates, intervals, DF, reach (+ post-dominators if the exit is a sink)"}]}


def _chunk_no_self5(args):
    part, parts = args
    n = 5
    pairs = [(a, b) for a in range(n) for b in range(n) if a != b]
    total = 1 << len(pairs)
    step = total // parts
    ev = 0
    bad = []
    for mask in range(part * step, (part + 1) * step):
        edges = [pairs[i] for i in range(len(pairs)) if (mask >> i) & 1]
        r = guarded(n, edges)
        if r is None:
            continue
        ev += 1
        if r and len(bad) < 3:
            bad.append((n, edges, r[0]))
    return ev, bad


def replay_bounded(inp):
    r = check_graph(inp["n"], [tuple(e) for e in inp["edges"]])
    if r:
        return False, {"graph": inp, "failed": r[:3]}
    return True, {"graph": inp, "observed": "every postcondition holds"}


ASSUMED = ["the reference sets are computed by the path-based definitions (node removal + reachability), independent of ppci's algorithms"]
NOT_COVERED = ["graphs beyond the stated bounds: no unbounded proof (Lengauer-Tarjan / fix-point algorithms are outside SMT-backed contract reach)",
               "graphs with nodes unreachable from the entry", "loop detection (calculate_loops)"]
