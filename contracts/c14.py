"""C14 (slice) -- ppci object files and archives survive save and load
(ppci/binutils/objectfile.py serialize / deserialize, ppci/utils/binary_txt.py, ppci/common.py make_num,
ppci/binutils/archive.py).

Shape-bounded symbolic execution of the REAL serialize -> deserialize pair (bounded stand-in, never counted as
proved without bound): an object with two sections, four symbols (defined global / local, undefined, absolute),
two relocations, one image and an optional entry symbol, whose addresses, alignments, values, offsets, addends are
unbounded symbolic integers (negative values included) and whose section contents are symbolic byte sequences of
up to 30 bytes (the hexlify branch of bin2asc).  Obligation, field by field as the property lists them: sections
(name, address, alignment, data), symbols (id, name, binding, value, section, typ, size), relocations, images,
entry point are equal after the round trip.
Deductive helpers: make_num(hex(n)) == n for every integer n (hex / int(., 16) as assumed inverse pair).
Native (concrete) cases: Archive.save / load of two objects, iterated twice; json text round trip; data > 30 bytes."""
import io
import types
import z3
from pyvc.engine import Contract, make_value
from pyvc.spec import and_, or_, not_, implies, ite, iff, tier, seq_eq
from pyvc.sym import SymInt, SymSeq, ctx
from pyvc import sym as S
from pyvc import models as MD

MODS = ["ppci.binutils.objectfile", "ppci.utils.binary_txt", "ppci.common"]


def _setup(g):
    import ppci.utils.binary_txt as bt
    old = bt.binascii
    bt.binascii = MD.binascii_proxy

    def undo():
        bt.binascii = old
    return undo


def _len(x):
    return x._len() if isinstance(x, SymSeq) else len(x)


INTS = ["a0", "al0", "a1", "al1", "v0", "v1", "v3", "off0", "add0", "off1", "add1", "img"]


GROUPS = {"all-nonnegative": INTS, "section": ["a0", "al0"], "section2": ["a1", "al1"], "symbols": ["v0", "v1", "v3"], "reloc": ["off0", "add0"],
          "reloc2": ["off1", "add1"], "image": ["img"]}


def _mk_obj(c, g):
    sym = GROUPS[g["ints"]]
    env = {k: (make_value("int", k, c) if k in sym else 4) for k in INTS}
    if g["ints"] == "all-nonnegative":
        for k in INTS:
            c.assume(env[k].e >= 0)
    env["d0"] = make_value("bytes", "d0", c)
    env["d1"] = make_value("bytes", "d1", c)
    return {"args": [], "env": env, "inputs": {k: v for k, v in env.items() if not isinstance(v, int)}}


def _build(env):
    from ppci.api import get_arch
    from ppci.binutils.objectfile import ObjectFile, RelocationEntry, Image
    obj = ObjectFile(get_arch("riscv"))
    s0 = obj.create_section("code")
    s0.address, s0.alignment = env.a0, env.al0
    s0.data = SymSeq(env.d0.e, "bytearray", env.d0.elem_bounds) if isinstance(env.d0, SymSeq) else bytearray(env.d0)
    s1 = obj.create_section("data")
    s1.address, s1.alignment = env.a1, env.al1
    s1.data = SymSeq(env.d1.e, "bytearray", env.d1.elem_bounds) if isinstance(env.d1, SymSeq) else bytearray(env.d1)
    obj.add_symbol(0, "main", "global", env.v0, "code", "func", 12)
    obj.add_symbol(1, "tmp", "local", env.v1, "data", "object", 4)
    obj.add_symbol(2, "ext", "global", None, None, "func", 0)
    obj.add_symbol(3, "abs", "global", env.v3, None, "object", 0)
    obj.add_relocation(RelocationEntry("b_imm20", 2, "code", env.off0, env.add0))
    obj.add_relocation(RelocationEntry("absaddr32", 1, "data", env.off1, env.add1))
    img = Image("flash", env.img)
    img.add_section(s0)
    img.add_section(s1)
    obj.add_image(img)
    if env.entry:
        obj.entry_symbol_id = 0
    return obj


def _rt_call(fn, env, args, kwargs):
    from ppci.binutils.objectfile import serialize, deserialize
    obj = _build(env)
    env["obj"] = obj
    d = serialize(obj)
    env["ser"] = d
    return deserialize(d)


def _rt_post(e):
    a, b = e.obj, e.result
    out = [("same number of sections, symbols, relocations, images",
            (len(a.sections), len(a.symbols), len(a.relocations), len(a.images)) == (len(b.sections), len(b.symbols), len(b.relocations), len(b.images)))]
    if not out[0][1]:
        return out
    for i, (x, y) in enumerate(zip(a.sections, b.sections)):
        out += [("section %d name" % i, x.name == y.name), ("section %d address" % i, x.address == y.address),
                ("section %d alignment" % i, x.alignment == y.alignment), ("section %d data" % i, seq_eq(x.data, y.data))]
    for i, (x, y) in enumerate(zip(a.symbols, b.symbols)):
        out += [("symbol %d id / name / binding / typ / size" % i, (x.id, x.name, x.binding, x.typ, x.size) == (y.id, y.name, y.binding, y.typ, y.size)),
                ("symbol %d section" % i, x.section == y.section),
                ("symbol %d value (None stays None)" % i, (x.value is None and y.value is None) if (x.value is None or y.value is None) else x.value == y.value)]
    for i, (x, y) in enumerate(zip(a.relocations, b.relocations)):
        out += [("relocation %d type / symbol / section" % i, (x.reloc_type, x.symbol_id, x.section) == (y.reloc_type, y.symbol_id, y.section)),
                ("relocation %d offset" % i, x.offset == y.offset), ("relocation %d addend" % i, x.addend == y.addend)]
    for i, (x, y) in enumerate(zip(a.images, b.images)):
        out += [("image %d name and section order" % i, x.name == y.name and [s.name for s in x.sections] == [s.name for s in y.sections]),
                ("image %d address" % i, x.address == y.address),
                ("image %d holds the reloaded section objects" % i, all(s is b.get_section(s.name) for s in y.sections))]
    out.append(("entry symbol id", a.entry_symbol_id == b.entry_symbol_id))
    out.append(("architecture", a.arch.name == b.arch.name))
    return out


def _samples(g, rnd):
    out = []
    for _ in range(10):
        d = {k: rnd.choice([0, 1, 4, 255, 0x1000, 0x80000000, -1, -4096, 2**64 + 3]) for k in INTS}
        d["d0"] = {"__bytes__": [rnd.randrange(256) for _ in range(rnd.choice([0, 1, 5, 30, 31, 64, 100]))]}
        d["d1"] = {"__bytes__": [rnd.randrange(256) for _ in range(rnd.choice([0, 3, 29, 45]))]}
        out.append(d)
    return out


BOUNDED = [Contract(
    "ppci.binutils.objectfile:deserialize", "C14", label="deserialize(serialize(obj)) [shape-bounded: 2 sections, 4 symbols, 2 relocations, 1 image]",
    grid=[{"entry": en, "ints": k} for k in GROUPS for en in ((False, True) if k == "all-nonnegative" else (True,))], modules=MODS, setup=_setup, make=_mk_obj, call=_rt_call, sample_inputs=_samples,
    replay_args=lambda g, v: {"args": [], "env": dict([(k, 4) for k in INTS] + list(v.items()))},
    requires=lambda e: [_len(e.d0) <= 30, _len(e.d1) <= 30] if S.active() else [],
    ensures=_rt_post)]

# ---- make_num(hex(n)) == n ---------------------------------------------------------------------------------------
CONTRACTS = [Contract(
    "ppci.common:make_num", "C14", label="make_num(hex(n)) == n", params={"n": "int"}, modules=["ppci.common"],
    call=lambda fn, env, args, kwargs: fn(hex(env.n) if not S.active() else __import__("pyvc.pybuiltins", fromlist=["x"]).sym_hex(env.n)),
    ensures=lambda e: [("make_num(hex(n)) == n", e.result == e.n)])]


# ---- native concrete cases: archive, json text, long data -------------------------------------------------------------
def _concrete_objects():
    from ppci.api import get_arch
    from ppci.binutils.objectfile import ObjectFile, RelocationEntry, Image
    arch = get_arch("msp430")
    a = ObjectFile(arch)
    a.create_section("code").add_data(bytes(range(100)))
    a.add_symbol(0, "main", "global", 0, "code", "func", 10)
    a.add_symbol(1, "printf", "global", None, None, "func", 0)
    a.add_relocation(RelocationEntry("rel10", 1, "code", 4, 0))
    b = ObjectFile(arch)
    s = b.create_section("code")
    s.add_data(bytes([0x55] * 8))
    s.alignment = 16
    s.address = 0x8000
    b.add_symbol(0, "printf", "global", 0, "code", "func", 8)
    b.entry_symbol_id = 0
    img = Image("flash", 0x8000)
    img.add_section(s)
    b.add_image(img)
    return [a, b]


def _archive_case(fn, env, args, kwargs):
    from ppci.binutils.archive import archive, get_archive
    from ppci.binutils.objectfile import ObjectFile
    objs = _concrete_objects()
    if env.case == "object-json":
        out = []
        for o in objs:
            f = io.StringIO()
            o.save(f)
            o2 = ObjectFile.load(io.StringIO(f.getvalue()))
            out.append(o2 == o and o2.entry_symbol_id == o.entry_symbol_id and [s.alignment for s in o2.sections] == [s.alignment for s in o.sections])
        return all(out)
    lib = archive(objs)
    f = io.StringIO()
    lib.save(f)
    lib2 = get_archive(io.StringIO(f.getvalue()))
    first = list(lib2)
    second = list(lib2)
    return len(first) == 2 and len(second) == 2 and all(x == y for x, y in zip(first, objs)) and all(x == y for x, y in zip(second, objs))


_DBG_C3 = """
module x;
type struct {
  int payload;
  node_t* next;
} node_t;
type struct { int a; byte[4] tag; node_t* head; } list_t;
var node_t* root;
var list_t lists;
var int plain;
function int walk(node_t* n)
{
    var int total = 0;
    while (n != 0)
    {
        total = total + n->payload;
        n = n->next;
    }
    return total + plain;
}
"""
_DBG_C = """
struct tree { struct tree *left, *right; long key; double w[3]; };
typedef struct tree tree_t;
static tree_t pool[4];
long depth(tree_t *t) { long a, b; if (!t) return 0; a = depth(t->left); b = depth(t->right); return 1 + (a > b ? a : b); }
double sum(tree_t *t, int n) { double s = 0; int i; for (i = 0; i < n; i++) s += t->w[i % 3]; return s + pool[0].key; }
"""


def _debug_case(fn, env, args, kwargs):
    """objects WITH debug information (self-referential struct types, arrays, pointers, locals) through save / load and an archive"""
    from ppci.api import c3c, cc
    from ppci.binutils import debuginfo
    from ppci.binutils.archive import archive, get_archive
    from ppci.binutils.objectfile import ObjectFile
    objs = [c3c([io.StringIO(_DBG_C3)], [], "arm", debug=True), cc(io.StringIO(_DBG_C), "x86_64", debug=True), cc(io.StringIO(_DBG_C), "riscv", debug=True)]
    why = []
    for k, o in enumerate(objs):
        ref = debuginfo.serialize(o.debug_info)
        f = io.StringIO()
        o.save(f)
        o2 = ObjectFile.load(io.StringIO(f.getvalue()))
        if o2 != o:
            why.append("object %d: sections / symbols / relocations differ after save + load" % k)
        if o2.debug_info is None or debuginfo.serialize(o2.debug_info) != ref:
            why.append("object %d: debug information differs after save + load" % k)
    lib = archive(objs)
    f = io.StringIO()
    lib.save(f)
    back = list(get_archive(io.StringIO(f.getvalue())))
    if len(back) != len(objs) or any(debuginfo.serialize(b.debug_info) != debuginfo.serialize(o.debug_info) or b != o for b, o in zip(back, objs)):
        why.append("archive members differ after save + load")
    return why


CONTRACTS.append(Contract(
    "ppci.binutils.debuginfo:deserialize", "C14", label="objects with debug information, concrete cases (native)",
    grid=[{"case": "debug-info"}], make=lambda c, g: {"args": [], "env": {}, "inputs": {}},
    call=_debug_case, sample_inputs=lambda g, rnd: [{}], replay_args=lambda g, v: {"args": [], "env": {}},
    ensures=lambda e: [("three compiled objects (C3 / C; arm, x86_64, riscv) with self-referential struct types, arrays, pointers and locals reload with equal "
                        "contents and equal debug information, directly and through an archive", e.result == [])]))

CONTRACTS.append(Contract(
    "ppci.binutils.archive:Archive.load", "C14", label="Archive / ObjectFile text round trip, concrete cases (native)",
    grid=[{"case": "archive-iterated-twice"}, {"case": "object-json"}], make=lambda c, g: {"args": [], "env": {}, "inputs": {}},
    call=_archive_case, sample_inputs=lambda g, rnd: [{}], replay_args=lambda g, v: {"args": [], "env": {}},
    ensures=lambda e: [("reloaded objects equal the originals (archive iterable more than once)", e.result is True)]))

CONTRACTS += BOUNDED
BOUNDED_LABELS = [c.label for c in BOUNDED]
BOUNDS_TEXT = ("one object with 2 sections, 4 symbols, 2 relocations, 1 image, optional entry symbol; all integer fields symbolic and non-negative at once, and each record's "
               "integer fields symbolic with either sign (one record kind at a time, the others fixed); section data symbolic with at most 30 bytes")
ASSUMED = ["T4 hex(n) / int(digits, 16) are an inverse pair (hex digits kept abstract); binascii.hexlify / unhexlify are an inverse pair", "T4 json.dump / json.load are the identity on "
           "JSON-representable values (the symbolic round trip goes serialize -> deserialize directly; the JSON text path is exercised natively on concrete objects)"]
NOT_COVERED = ["debug information beyond three concrete compiled objects (debuginfo.serialize / deserialize: class dispatch over a type graph, no symbolic contract within reach)", "byte-identical re-link of reloaded objects",
               "section data longer than 30 bytes in the symbolic round trip (chunked branch of bin2asc: covered by native samples only)", "objects with more elements than the stated shape"]
