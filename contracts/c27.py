"""C27 (slice) -- C integer constant expressions: ConstantExpressionEvaluator (eval_binop, eval_unop,
eval_cast, conditional operator) and CContext.pack against C11 integer semantics, per integer type.

The evaluator is run on real expression nodes whose literal values are unbounded symbolic integers
constrained to the operand type's range; the grid is (operator x integer type)."""
import z3
from pyvc.engine import Contract, make_value
from pyvc.spec import and_, or_, not_, implies, ite, iff, tier
from pyvc.sym import SymInt, SymBool, ctx
from pyvc import models as MD
from contracts import csem as CS

M = "ppci.lang.c.eval"
TYPES = ["CHAR", "UCHAR", "SHORT", "USHORT", "INT", "UINT", "LONG", "ULONG", "LONGLONG", "ULONGLONG"]
QTYPES = TYPES if tier() != "quick" else ["CHAR", "UCHAR", "SHORT", "INT", "UINT", "LONG", "ULONGLONG"]
_CTX = {}


def context():
    if "c" not in _CTX:
        from ppci.api import get_arch
        from ppci.lang.c import COptions
        from ppci.lang.c.context import CContext
        _CTX["c"] = CContext(COptions(), get_arch("x86_64").info)
    return _CTX["c"]


def ctype(name):
    from ppci.lang.c.nodes.types import BasicType
    return BasicType(getattr(BasicType, name))


def tinfo(name):
    t = ctype(name)
    return context().sizeof(t) * 8, bool(t.is_signed)


def lit(v, tname):
    from ppci.lang.c.nodes import expressions
    return expressions.NumericLiteral(v, ctype(tname), None)


def _setup(g):
    import ppci.lang.c.context as cm
    old = cm.struct
    cm.struct = MD.struct_proxy

    def undo():
        cm.struct = old
    return undo


def _mk2(c, g):
    bits, signed = tinfo(g["typ"])
    lo, hi = CS.lo_hi(bits, signed)
    a = make_value(("range", lo, hi + 1), "a", c)
    b = make_value(("range", lo, hi + 1), "b", c)
    return {"args": [], "env": {"a": a, "b": b}, "inputs": {"a": a, "b": b}}


def _samples2(g, rnd):
    bits, signed = tinfo(g["typ"])
    lo, hi = CS.lo_hi(bits, signed)
    vals = [lo, lo + 1, -7, -3, -2, -1, 0, 1, 2, 3, 7, bits - 1, bits, hi - 1, hi, hi // 2, 100, -100]
    vals = [v for v in vals if lo <= v <= hi]
    return [{"a": rnd.choice(vals), "b": rnd.choice(vals)} for _ in range(40)]


def _binop_call(fn, env, args, kwargs):
    from ppci.lang.c.nodes import expressions
    op = env.op
    rtyp = "INT" if (op in CS.COMPARE or op in CS.LOGIC) else env.typ
    e = expressions.BinaryOperator(lit(env.a, env.typ), op, lit(env.b, env.typ), ctype(rtyp), False, None)
    return context().eval_expr(e)


def _binop_pre(e):
    bits, signed = tinfo(e.typ)
    return CS.c_defined_steps(e.op, e.a, e.b, bits, signed)


def _binop_post(e):
    bits, signed = tinfo(e.typ)
    d, v = CS.c_binop(e.op, e.a, e.b, bits, signed)
    return [("value == C11 value of (a %s b) in type %s" % (e.op, e.typ.lower()), e.result == v)]


CONTRACTS = []
for op in CS.ARITH + CS.COMPARE + CS.LOGIC:
    CONTRACTS.append(Contract(
        M + ":ConstantExpressionEvaluator.eval_binop", "C27", label="eval_expr(a %s b)" % op,
        grid=[{"op": op, "typ": t} for t in QTYPES], modules=[M, "ppci.lang.c.context"],
        make=_mk2, call=_binop_call, sample_inputs=_samples2, replay_args=lambda g, v: {"args": [], "env": dict(v)},
        requires=_binop_pre, ensures=_binop_post))


# short-circuit: the right operand of && / || and the unselected arm of ?: are not evaluated
def _lazy_call(fn, env, args, kwargs):
    from ppci.lang.c.nodes import expressions
    div0 = expressions.BinaryOperator(lit(1, "INT"), "/", lit(0, "INT"), ctype("INT"), False, None)
    if env.form == "&&":
        e = expressions.BinaryOperator(lit(env.a, "INT"), "&&", div0, ctype("INT"), False, None)
    elif env.form == "||":
        e = expressions.BinaryOperator(lit(env.a, "INT"), "||", div0, ctype("INT"), False, None)
    elif env.form == "?:then":
        e = expressions.TernaryOperator(lit(env.a, "INT"), "?", lit(env.b, "INT"), div0, ctype("INT"), False, None)
    else:
        e = expressions.TernaryOperator(lit(env.a, "INT"), "?", div0, lit(env.b, "INT"), ctype("INT"), False, None)
    return context().eval_expr(e)


CONTRACTS.append(Contract(
    M + ":ConstantExpressionEvaluator.eval_expr", "C27", label="eval_expr: unevaluated operands of && || ?:",
    grid=[{"form": f, "typ": "INT"} for f in ("&&", "||", "?:then", "?:else")], modules=[M, "ppci.lang.c.context"],
    make=_mk2, call=_lazy_call, sample_inputs=_samples2, replay_args=lambda g, v: {"args": [], "env": dict(v)},
    requires=lambda e: [{"&&": e.a == 0, "||": e.a != 0, "?:then": e.a != 0, "?:else": e.a == 0}[e.form]],
    ensures=lambda e: [("value as C11 6.5.13-15 (the other operand, 1/0, is not evaluated)",
                        e.result == {"&&": 0, "||": 1, "?:then": e.b, "?:else": e.b}[e.form])]))


def _mk1(c, g):
    bits, signed = tinfo(g["typ"])
    lo, hi = CS.lo_hi(bits, signed)
    a = make_value(("range", lo, hi + 1), "a", c)
    return {"args": [], "env": {"a": a}, "inputs": {"a": a}}


def _samples1(g, rnd):
    return [{"a": d["a"]} for d in _samples2(g, rnd)]


def _unop_call(fn, env, args, kwargs):
    from ppci.lang.c.nodes import expressions
    rtyp = "INT" if env.op == "!" else env.typ
    return context().eval_expr(expressions.UnaryOperator(env.op, lit(env.a, env.typ), ctype(rtyp), False, None))


for op in ("-", "~", "+", "!"):
    CONTRACTS.append(Contract(
        M + ":ConstantExpressionEvaluator.eval_unop", "C27", label="eval_expr(%s a)" % op,
        grid=[{"op": op, "typ": t} for t in QTYPES], modules=[M, "ppci.lang.c.context"],
        make=_mk1, call=_unop_call, sample_inputs=_samples1, replay_args=lambda g, v: {"args": [], "env": dict(v)},
        requires=lambda e: [CS.c_unop(e.op, e.a, *tinfo(e.typ))[0]],
        ensures=lambda e: [("value == C11 value of (%s a) in type %s" % (e.op, e.typ.lower()), e.result == CS.c_unop(e.op, e.a, *tinfo(e.typ))[1])]))


# casts: every source value, every target type
def _cast_call(fn, env, args, kwargs):
    from ppci.lang.c.nodes import expressions
    return context().eval_expr(expressions.Cast(lit(env.a, env.typ), ctype(env.to), False, None))


_CASTS = [(s, t) for s in QTYPES for t in QTYPES]
CONTRACTS.append(Contract(
    M + ":ConstantExpressionEvaluator.eval_cast", "C27", label="eval_expr((T) a)",
    grid=[{"typ": s, "to": t} for s, t in _CASTS], modules=[M, "ppci.lang.c.context"],
    make=_mk1, call=_cast_call, sample_inputs=_samples1, replay_args=lambda g, v: {"args": [], "env": dict(v)},
    ensures=lambda e: [("value == a converted to the target type (6.3.1.3)", e.result == CS.wrap(e.a, *tinfo(e.to))),
                       ("value is in the target type's range", CS.in_range(e.result, *tinfo(e.to)))]))


# CContext.pack: every integer value is converted, never an internal error
def _pack_post(e):
    bits, signed = tinfo(e.typ)
    w = CS.wrap(e.value, bits, False)
    items = MD.buf_items(e.result)
    out = [("len == sizeof(type)", len(items) == bits // 8)]
    for i in range(min(len(items), bits // 8)):
        out.append(("byte %d of the little-endian two's-complement image of the converted value" % i, items[i] == (w >> (8 * i)) % 256))
    return out


CONTRACTS.append(Contract(
    "ppci.lang.c.context:CContext.pack", "C27", params={"value": "int"}, grid=[{"typ": t} for t in TYPES],
    modules=["ppci.lang.c.context"], setup=_setup,
    call=lambda fn, env, args, kwargs: context().pack(ctype(env.typ), env.value),
    ensures=_pack_post))


# enumerator values (shape-bounded: up to 3 enumerators, each with or without an explicit value)
def _mk_enum(c, g):
    env = {}
    for i, k in enumerate(g["shape"]):
        if k == "e":
            env["v%d" % i] = make_value(("range", -(1 << 31), 1 << 31), "v%d" % i, c)
    return {"args": [], "env": env, "inputs": dict(env)}


def _enum_call(fn, env, args, kwargs):
    from ppci.lang.c.nodes import types, declarations
    from ppci.lang.c import COptions
    from ppci.lang.c.context import CContext
    from ppci.api import get_arch
    cx = CContext(COptions(), get_arch("x86_64").info)
    et = types.EnumType()
    consts = []
    for i, k in enumerate(env.shape):
        consts.append(declarations.EnumConstantDeclaration(et, "E%d" % i, lit(env["v%d" % i], "INT") if k == "e" else None, None))
    et.constants = consts
    return [cx.get_enum_value(et, cst) for cst in consts]


def _enum_post(e):
    out = []
    prev = None
    for i, k in enumerate(e.shape):
        want = e["v%d" % i] if k == "e" else (0 if prev is None else prev + 1)
        out.append(("enumerator %d == its explicit value, else previous + 1 (0 for the first)" % i, e.result[i] == want))
        prev = want
    return out


import itertools
_SHAPES = [s for n in (1, 2, 3) for s in itertools.product("ei", repeat=n)]
ENUM = Contract(
    "ppci.lang.c.context:CContext._calculate_enum_values", "C27", label="CContext.get_enum_value [shape-bounded: up to 3 enumerators]",
    grid=[{"shape": s} for s in _SHAPES], modules=["ppci.lang.c.context", M], make=_mk_enum, call=_enum_call,
    sample_inputs=lambda g, rnd: [{"v%d" % i: rnd.choice([0, 0, 1, 5, -1, 2147483646]) for i, k in enumerate(g["shape"]) if k == "e"} for _ in range(8)],
    replay_args=lambda g, v: {"args": [], "env": dict(v)},
    requires=lambda e: [e["v%d" % i] < (1 << 31) - 3 for i, k in enumerate(e.shape) if k == "e"],
    ensures=_enum_post)
CONTRACTS.append(ENUM)
BOUNDED_LABELS = [ENUM.label]
BOUNDS_TEXT = "enum declarations with 1..3 enumerators, each with or without an explicit (symbolic) value"

ASSUMED = ["contracts/csem.py is C11 integer semantics (6.3.1.3 conversions with two's-complement wrap for signed targets, 6.5.5-6.5.14; "
           ">> of a negative value is the arithmetic shift); operands already have the common type (as after semantic analysis)",
           "type sizes are those of the x86_64 target description (char 8, short 16, int 32, long 64, long long 64 bits)",
           "T4 struct.pack: range => struct.error, little-endian two's-complement image"]
NOT_COVERED = ["that the parser / semantic analysis gives every sub-expression the right type (usual arithmetic conversions, integer promotions)",
               "initializer lowering for arrays / structs / unions, bit-field widths, case labels, link-time (address) expressions",
               "floating-point constant expressions"]
