"""Specification rows for ppci's relocation classes (shared by C10 and C11).

Written from the ISA manuals / psABI documents (rows marked manual=True) or, for
targets without an independent reference at hand, from the token layout the
class names (manual=False: structure-only oracle, stated in the evidence).

S: symbol value, P: address of the relocated instruction, A: addend.
A row gives
  pre(S,P,A)   domain of the row (alignment the ISA requires; template bits)
  value(S,P,A) the integer `enc` that the field must hold (may be negative)
  rep(S,P,A)   `enc` (and the distance it stands for) is representable
  layout       [(word_bit_lo, enc_bit_lo, nbits)]: word bits <- enc bits
  size, endian of the instruction word
"""
from pyvc.spec import and_, or_, not_, ite


def sfit(x, n):
    return and_(x >= -(1 << (n - 1)), x < (1 << (n - 1)))


def ufit(x, n):
    return and_(x >= 0, x < (1 << n))


def prop_layout(p):
    """[(word_bit_lo, value_bit_lo, nbits)] of a token field property (bit_range / bit_concat, nested)"""
    cells = dict(zip(p.fget.__code__.co_freevars, [c.cell_contents for c in (p.fget.__closure__ or ())]))
    if "partials" in cells:
        out = []
        lo = 0
        for part in reversed(cells["partials"]):      # partials are MSB first
            for (wlo, vlo, n) in prop_layout(part):
                out.append((wlo, vlo + lo, n))
            lo += part._bitsize
        return out
    return [(cells["b"], 0, cells["e"] - cells["b"])]


def field_layout(token_cls, field):
    """layout of a token field as ppci declares it"""
    for b in token_cls.__mro__:
        if field in b.__dict__:
            return prop_layout(b.__dict__[field])
    raise KeyError(field)


class Row:
    def __init__(self, cls, size, value, rep, layout=None, pre=None, endian="little", manual=True,
                 expected=None, uses_addend=False, note="", template=None, post=None, setup=None):
        self.cls = cls                  # 'module:Class'
        self.size = size
        self.value = value
        self.rep = rep
        self.layout = layout
        self.pre = pre or (lambda S, P, A: [])
        self.endian = endian
        self.manual = manual
        self.expected = expected        # optional: (word_old, S, P, A) -> word_new
        self.uses_addend = uses_addend
        self.note = note
        self.template = template        # (word_old) -> [conds] : template bits the relocation ORs into
        self.setup = setup              # optional: contract setup hook (e.g. callee stubs); returns an undo function
        self.post = post                # optional: (old bytes, new bytes, S, P, A) -> [(name, cond)] custom postcondition

    @property
    def __name__(self):
        return self.cls.split("ppci.arch.")[1]

    def __repr__(self):
        return self.__name__


def place(word, layout, enc):
    """word with the layout's bits replaced by the corresponding bits of enc"""
    r = word
    for (wlo, vlo, n) in layout:
        mask = ((1 << n) - 1) << wlo
        bits = (enc >> vlo) % (1 << n)
        r = r - (r & mask) + bits * (1 << wlo)
    return r


def even(*xs):
    return [x % 2 == 0 for x in xs]


def mult4(*xs):
    return [x % 4 == 0 for x in xs]


def _align2(p):
    return p + (p % 2)


def _align4(p):
    return p + ((4 - p % 4) % 4)


def _abs(v):
    return ite(v < 0, lambda: -v, lambda: v)


def _ror32(v, k):
    return v if k == 0 else v // (1 << k) + (v % (1 << k)) * (1 << (32 - k))


def _imm32_ok(v):
    """v (0 <= v < 2^32) is an 8-bit value rotated right by an even amount"""
    def rol(x, k):
        return _ror32(x, (32 - k) % 32)
    return or_(*[rol(v, 2 * i) < 256 for i in range(16)])


def _adr_setup(g):
    """callee abstraction: encode_imm32 replaced by its (C39-verified) contract -- raises ValueError iff the value is not a rotated
    8-bit immediate, otherwise returns some e < 4096 with ror32(e & 0xFF, 2 * (e >> 8)) == v"""
    import z3
    import ppci.arch.arm.arm_relocations as m
    from pyvc.sym import SymInt, ctx, as_z3_bool
    from pyvc.spec import pick
    old = m.encode_imm32
    real = old

    def stub(v):
        if not isinstance(v, SymInt):
            return real(v)
        c = ctx()
        if not bool(_imm32_ok(v)):
            raise ValueError("cannot encode value")
        e = SymInt(z3.Int(c.fresh_name("imm12")))
        c.assume(z3.And(e.e >= 0, e.e < 4096))
        rot = pick(e // 256, 16)
        c.assume(as_z3_bool(_ror32(e % 256, (2 * rot) % 32) == v))
        return e
    m.encode_imm32 = stub

    def undo():
        m.encode_imm32 = old
    return undo


def _adr_post(old, new, V):
    """byte-wise: new[0] = imm8, low nibble of new[1] = rotation, bits 7:6 of new[2] = ADD / SUB selector"""
    from pyvc.spec import pick
    rot = pick(new[1] % 16, 16)
    out = [("bits 23:22 select ADD (10) for V >= 0 and SUB (01) for V < 0", new[2] // 64 == ite(V >= 0, lambda: 2, lambda: 1)),
           ("frame: the other bits of byte 2 are unchanged", new[2] % 64 == old[2] % 64),
           ("frame: the upper nibble of byte 1 (rd) is unchanged", new[1] // 16 == old[1] // 16),
           ("frame: byte 3 (cond, opcode) is unchanged", new[3] == old[3])]
    if isinstance(rot, int):
        out.append(("imm12 decodes (imm8 rotated right by 2*rot) to |V|", _ror32(new[0], (2 * rot) % 32) == _abs(V)))
    else:
        out.append(("rotation field in range", False))
    return out


def _bcond_bits(enc):
    """bits the T3 conditional branch relocation sets for the signed 18-bit halfword offset enc"""
    u = enc % (1 << 18)
    imm11 = u % 2048
    imm6 = (u // 2048) % 64
    s = u // (1 << 17)
    return imm6 + s * (1 << 10) + imm11 * (1 << 16) + s * (1 << 27) + s * (1 << 29)


J_TYPE = [(21, 0, 10), (20, 10, 1), (12, 11, 8), (31, 19, 1)]
B_TYPE = [(8, 0, 4), (25, 4, 6), (7, 10, 1), (31, 11, 1)]
CJ = [(3, 0, 3), (11, 3, 1), (2, 4, 1), (7, 5, 1), (6, 6, 1), (9, 7, 2), (8, 9, 1), (12, 10, 1)]
CB = [(3, 0, 2), (10, 2, 2), (2, 4, 1), (5, 5, 2), (12, 7, 1)]

RV = "ppci.arch.riscv.relocations:"
RVC = "ppci.arch.riscv.rvc_relocations:"
ARM = "ppci.arch.arm.arm_relocations:"
TH = "ppci.arch.arm.thumb_relocations:"
X86 = "ppci.arch.x86_64.instructions:"
AVR = "ppci.arch.avr.instructions:"
DAT = "ppci.arch.data_instructions:"

ROWS = [
    # ---- RISC-V (unprivileged ISA manual, B/J/U/I immediates; psABI hi20/lo12) ----
    Row(RV + "BImm12Relocation", 4, lambda S, P, A: (S - P) // 2, lambda S, P, A: sfit((S - P) // 2, 12),
        B_TYPE, pre=lambda S, P, A: even(S, P)),
    Row(RV + "BImm20Relocation", 4, lambda S, P, A: (S - P) // 2, lambda S, P, A: sfit((S - P) // 2, 20),
        J_TYPE, pre=lambda S, P, A: even(S, P)),
    Row(RV + "Abs32Imm20Relocation", 4, lambda S, P, A: ((S + 0x800) // 4096) % (1 << 20), lambda S, P, A: ufit(S, 32),
        [(12, 0, 20)], pre=lambda S, P, A: even(S)),
    Row(RV + "RelImm20Relocation", 4, lambda S, P, A: ((S - P + 0x800) // 4096) % (1 << 20), lambda S, P, A: sfit(S - P, 32),
        [(12, 0, 20)], pre=lambda S, P, A: even(S, P)),
    Row(RV + "Abs32Imm12Relocation", 4, lambda S, P, A: S % 4096, lambda S, P, A: ufit(S, 32),
        [(20, 0, 12)], pre=lambda S, P, A: even(S)),
    Row(RV + "RelImm12Relocation", 4, lambda S, P, A: (S - P + 4) % 4096, lambda S, P, A: sfit(S - P + 4, 32),
        [(20, 0, 12)], pre=lambda S, P, A: even(S, P)),
    Row(RV + "AbsAddr32Relocation", 4, lambda S, P, A: S, lambda S, P, A: ufit(S, 32), [(0, 0, 32)]),
    # ---- RISC-V C extension (CJ / CB formats) and the relaxable 32-bit jumps ----
    Row(RVC + "CBImm11Relocation", 4, lambda S, P, A: (S - P) // 2, lambda S, P, A: sfit((S - P) // 2, 20),
        J_TYPE, pre=lambda S, P, A: even(S, P)),
    Row(RVC + "CBlImm11Relocation", 4, lambda S, P, A: (S - P) // 2, lambda S, P, A: sfit((S - P) // 2, 20),
        J_TYPE, pre=lambda S, P, A: even(S, P)),
    Row(RVC + "BcImm11Relocation", 2, lambda S, P, A: (S - P) // 2, lambda S, P, A: sfit((S - P) // 2, 11),
        CJ, pre=lambda S, P, A: even(S, P)),
    Row(RVC + "BcImm8Relocation", 2, lambda S, P, A: (S - P) // 2, lambda S, P, A: sfit((S - P) // 2, 8),
        CB, pre=lambda S, P, A: even(S, P)),
    # ---- ARM (A32: B/BL imm24; LDR literal; ADR) ----
    Row(ARM + "Imm24Relocation", 4, lambda S, P, A: (S - (P + 8)) // 4, lambda S, P, A: sfit((S - (P + 8)) // 4, 24),
        [(0, 0, 24)], pre=lambda S, P, A: mult4(S, P)),
    Row(ARM + "Rel8Relocation", 4, lambda S, P, A: (S - (_align2(P) + 4)) // 2, lambda S, P, A: sfit((S - (_align2(P) + 4)) // 2, 8),
        [(0, 0, 8)], pre=lambda S, P, A: even(S), manual=False, note="field imm8 of ArmToken as the class names it"),
    Row(ARM + "LdrImm12Relocation", 4, lambda S, P, A: S - (P + 8), lambda S, P, A: and_(S - (P + 8) > -4096, S - (P + 8) < 4096),
        None, pre=lambda S, P, A: mult4(S, P),
        template=lambda w: [w % 4096 == 0, (w // (1 << 23)) % 2 == 0],
        expected=lambda w, S, P, A: w + ite(S - (P + 8) >= 0, lambda: (1 << 23) + (S - (P + 8)), lambda: -(S - (P + 8))),
        note="LDR (literal): U = (offset >= 0), imm12 = |offset|; the relocation ORs into a template whose U and imm12 bits are 0"),
    # ADR (A32): ADD / SUB rd, pc, #modified-immediate.  The 12-bit field holds ANY valid encoding of |V| (decoded by rotating imm8
    # right by 2*rot); bits 23 / 22 select ADD / SUB; the relocation ORs into a template with those bits and the field clear.
    Row(ARM + "AdrImm12Relocation", 4, lambda S, P, A: S - (P + 8), lambda S, P, A: and_(S - (P + 8) > -4096, S - (P + 8) < 4096, _imm32_ok(_abs(S - (P + 8)))),
        None, pre=lambda S, P, A: mult4(S, P), template=lambda w: [w % 4096 == 0, (w // (1 << 22)) % 4 == 0],
        post=lambda old, new, S, P, A: _adr_post(old, new, S - (P + 8)), setup=lambda g: _adr_setup(g),
        note="ADR: |V| < 4096 and |V| a rotated 8-bit immediate; imm12 checked by decoding (any valid rotation)"),
    # ---- Thumb ----
    # BL / B.W (T1/T4): offset = SignExtend(S:I1:I2:imm10:imm11:0), I1 = NOT(J1 xor S), I2 = NOT(J2 xor S).  ppci's templates have
    # J1 = J2 = 1 and the relocation writes S, imm10, imm11 only, so I1 = I2 = S: representable iff bits 22, 23 of V equal its sign.
    Row(TH + "BlImm11Relocation", 4, lambda S, P, A: (S - (_align2(P) + 4)) // 2, lambda S, P, A: sfit((S - (_align2(P) + 4)) // 2, 22),
        [(16, 0, 11), (0, 11, 10), (10, 23, 1)], pre=lambda S, P, A: even(S),
        template=lambda w: [(w // (1 << 29)) % 2 == 1, (w // (1 << 27)) % 2 == 1],
        note="BL T1 with J1 = J2 = 1 as ppci's instruction templates emit them"),
    # B<cond>.W (T3): offset = SignExtend(S:J2:J1:imm6:imm11:0); the relocation ORs S, J1 = J2 = S, imm6, imm11 into a zero template.
    Row(TH + "BImm11Imm6Relocation", 4, lambda S, P, A: (S - (_align2(P) + 4)) // 2, lambda S, P, A: sfit((S - (_align2(P) + 4)) // 2, 18),
        None, pre=lambda S, P, A: even(S),
        template=lambda w: [w % 64 == 0, (w // (1 << 10)) % 2 == 0, (w // (1 << 16)) % (1 << 11) == 0, (w // (1 << 27)) % 2 == 0, (w // (1 << 29)) % 2 == 0],
        expected=lambda w, S, P, A: w + _bcond_bits((S - (_align2(P) + 4)) // 2),
        note="B.W T3: J1 = J2 = S, so representable iff bits 18, 19 of V equal its sign"),
    Row(TH + "Lit8Relocation", 2, lambda S, P, A: (S - ((P + 4) // 4) * 4) // 4,
        lambda S, P, A: and_(S - ((P + 4) // 4) * 4 >= 0, S - ((P + 4) // 4) * 4 <= 1020),
        [(0, 0, 8)], pre=lambda S, P, A: mult4(S) + even(P),
        note="LDR (literal) T1: base is Align(PC,4) with PC = P + 4; ppci aligns P + 2 up, which is the same address for even P"),
    Row(TH + "WrapNew11Relocation", 2, lambda S, P, A: (S - (_align2(P) + 4)) // 2, lambda S, P, A: sfit((S - (_align2(P) + 4)) // 2, 11),
        [(0, 0, 11)], pre=lambda S, P, A: even(S)),
    Row(TH + "Rel8Relocation", 2, lambda S, P, A: (S - (_align2(P) + 4)) // 2, lambda S, P, A: sfit((S - (_align2(P) + 4)) // 2, 8),
        [(0, 0, 8)], pre=lambda S, P, A: even(S)),
    # ---- x86-64 ----
    Row(X86 + "Rel32JmpRelocation", 4, lambda S, P, A: S - P + A, lambda S, P, A: sfit(S - P + A, 32), [(0, 0, 32)], uses_addend=True),
    Row(X86 + "Jmp8Relocation", 1, lambda S, P, A: S - (P + 1), lambda S, P, A: sfit(S - (P + 1), 8), [(0, 0, 8)]),
    Row(X86 + "Abs32Relocation", 4, lambda S, P, A: S, lambda S, P, A: and_(S >= -(1 << 31), S < (1 << 32)), [(0, 0, 32)],
        note="32-bit absolute: accepted when representable as either a signed or an unsigned 32-bit quantity"),
    Row(X86 + "Abs64Relocation", 8, lambda S, P, A: S, lambda S, P, A: and_(S >= -(1 << 63), S < (1 << 64)), [(0, 0, 64)]),
    # ---- data relocations ----
    Row(DAT + "U16DataRelocation", 2, lambda S, P, A: S, lambda S, P, A: ufit(S, 16), [(0, 0, 16)], pre=lambda S, P, A: even(P)),
    Row(DAT + "U32DataRelocation", 4, lambda S, P, A: S, lambda S, P, A: ufit(S, 32), [(0, 0, 32)], pre=lambda S, P, A: mult4(P)),
    Row(DAT + "U64DataRelocation", 8, lambda S, P, A: S, lambda S, P, A: ufit(S, 64), [(0, 0, 64)], pre=lambda S, P, A: mult4(P)),
    # ---- AVR (RJMP/RCALL k12, BRxx k7, LDI K8) ----
    Row(AVR + "TwelveBitAvrRelocation", 2, lambda S, P, A: (S - P - 2) // 2, lambda S, P, A: sfit((S - P - 2) // 2, 12),
        [(0, 0, 12)], pre=lambda S, P, A: even(S, P)),
    Row(AVR + "SevenBitAvrRelocation", 2, lambda S, P, A: (S - P - 2) // 2, lambda S, P, A: sfit((S - P - 2) // 2, 7),
        [(3, 0, 7)], pre=lambda S, P, A: even(S, P)),
    Row(AVR + "LdiLoAvrRelocation", 2, lambda S, P, A: S % 256, lambda S, P, A: and_(S >= -(1 << 15), S < (1 << 16)),
        [(0, 0, 4), (8, 4, 4)]),
    Row(AVR + "LdiHiAvrRelocation", 2, lambda S, P, A: (S // 256) % 256, lambda S, P, A: and_(S >= -(1 << 15), S < (1 << 16)),
        [(0, 0, 4), (8, 4, 4)]),
    # ---- MSP430 / MIPS / m68k ----
    Row("ppci.arch.msp430.instructions:Rel10Relocation", 2, lambda S, P, A: (S - _align2(P) - 2) // 2,
        lambda S, P, A: sfit((S - _align2(P) - 2) // 2, 10), [(0, 0, 10)], pre=lambda S, P, A: even(S)),
    Row("ppci.arch.msp430.instructions:Abs16Relocation", 2, lambda S, P, A: S, lambda S, P, A: and_(S >= -(1 << 15), S < (1 << 16)),
        [(0, 0, 16)], pre=lambda S, P, A: even(S)),
    Row("ppci.arch.mips.instructions:Abs26Relocation", 4, lambda S, P, A: S // 4, lambda S, P, A: ufit(S // 4, 26),
        [(0, 0, 26)], pre=lambda S, P, A: mult4(S), manual=False,
        note="J-format target: low 28 bits of the address; the 256 MiB region check against P is not modelled"),
    Row("ppci.arch.m68k.instructions:Rel16Relocation", 2, lambda S, P, A: S - P, lambda S, P, A: sfit(S - P, 16), [(0, 0, 16)], endian="big"),
    Row("ppci.arch.m68k.instructions:BranchRel32Relocation", 4, lambda S, P, A: S - P, lambda S, P, A: sfit(S - P, 32), [(0, 0, 32)], endian="big"),
]


def structure_only_rows():
    """Rows for targets without an independent reference here: the field named by
    the class must receive calc()'s mathematical value; range = signed for pc-relative,
    either signedness for absolute values."""
    import importlib
    rows = []
    spec = [
        ("ppci.arch.mcs6500.instructions:AbsRelocation", lambda S, P, A: S, "u"),
        ("ppci.arch.mcs6500.instructions:RelativeRelocation", lambda S, P, A: S - (P + 1), "s"),
        ("ppci.arch.or1k.instructions:JumpRelocation", lambda S, P, A: (S - P) // 4, "s", lambda S, P, A: mult4(S, P)),
        ("ppci.arch.or1k.instructions:ConstRelocation", lambda S, P, A: S % 65536, "u32"),
        ("ppci.arch.or1k.instructions:ConsthRelocation", lambda S, P, A: (S // 65536) % 65536, "u32"),
        ("ppci.arch.microblaze.instructions:PcRelRelocation64", lambda S, P, A: S - (P + 4), "s"),
        ("ppci.arch.microblaze.instructions:AbsRelocation64", lambda S, P, A: S, "us"),
        ("ppci.arch.xtensa.instructions:Imm8Relocation", lambda S, P, A: S - P - 4, "s"),
        ("ppci.arch.xtensa.instructions:Imm12Relocation", lambda S, P, A: S - P - 4, "s"),
        ("ppci.arch.xtensa.instructions:Imm18Relocation", lambda S, P, A: S - P - 4, "s"),
        ("ppci.arch.xtensa.instructions:Ri16Relocation", lambda S, P, A: (S - ((P + 3) // 4) * 4) // 4, "s", lambda S, P, A: mult4(S) + [P >= 0, P + 3 < (1 << 32)]),
        ("ppci.arch.xtensa.instructions:Call0Relocation", lambda S, P, A: S // 4 - ((P // 4) + 1), "s", lambda S, P, A: mult4(S) + [P >= 0, P < (1 << 32)]),
    ]
    for item in spec:
        path, value, kind = item[0], item[1], item[2]
        pre = item[3] if len(item) > 3 else None
        modname, clsname = path.split(":")
        cls = getattr(importlib.import_module(modname), clsname)
        tok = cls.token
        lay = field_layout(tok, cls.field)
        width = sum(n for _, _, n in lay)
        if kind == "s":
            rep = (lambda value, width: lambda S, P, A: sfit(value(S, P, A), width))(value, width)
        elif kind == "u":
            rep = (lambda value, width: lambda S, P, A: ufit(value(S, P, A), width))(value, width)
        elif kind == "u32":
            rep = lambda S, P, A: ufit(S, 32)
        else:
            rep = (lambda value, width: lambda S, P, A: and_(value(S, P, A) >= -(1 << (width - 1)), value(S, P, A) < (1 << width)))(value, width)
        endian = "big" if str(tok.Info.endianness).lower().endswith("big") else "little"
        rows.append(Row(path, tok.Info.size // 8, value, rep, lay, pre=pre, endian=endian, manual=False,
                        note="structure-only oracle: layout taken from the token class, formula from the class"))
    return rows


def all_rows():
    return ROWS + structure_only_rows()


# classes that deliberately have no row (with the reason) -- anything else without a row is an
# undecided obligation, so a newly added relocation class cannot slip through
NO_ROW = {
    "ppci.arch.riscv.rvc_relocations:CRel": "abstract base class",
}


# ---------------------------------------------------------------------------------------------
# Known findings (C10): for these rows the unchanged tree silently accepts some values that are
# not representable.  `ACCEPTS[row]` characterises exactly that region; the reject obligation is
# proved outside it, so any *other* unrepresentable value that gets accepted is still reported.
def _upper(x, n):
    """the unsigned upper half of an n-bit field, which an ISA-signed field must not accept"""
    return and_(x >= (1 << (n - 1)), x < (1 << n))


def _neghalf(x, n):
    return and_(x >= -(1 << (n - 1)), x < 0)


def _rowmap():
    return {r.cls: r for r in all_rows()}


_A = {}
for _cls, _n in ((RV + "BImm12Relocation", 12), (RV + "BImm20Relocation", 20), (RVC + "CBImm11Relocation", 20),
                 (RVC + "CBlImm11Relocation", 20), (RVC + "BcImm11Relocation", 11), (RVC + "BcImm8Relocation", 8),
                 (ARM + "Imm24Relocation", 24), (X86 + "Rel32JmpRelocation", 32),
                 ("ppci.arch.m68k.instructions:Rel16Relocation", 16), ("ppci.arch.m68k.instructions:BranchRel32Relocation", 32),
                 ("ppci.arch.mcs6500.instructions:RelativeRelocation", 8), ("ppci.arch.or1k.instructions:JumpRelocation", 26),
                 ("ppci.arch.microblaze.instructions:PcRelRelocation64", 32),
                 ("ppci.arch.xtensa.instructions:Ri16Relocation", 16), ("ppci.arch.xtensa.instructions:Call0Relocation", 18)):
    _A[_cls] = ("wrap_negative / an unsigned field declaration admits the unsigned upper half [2^(n-1), 2^n) of an ISA-signed %d-bit field" % _n,
                (lambda n: lambda row, S, P, A: _upper(row.value(S, P, A), n))(_n))
_A[TH + "BlImm11Relocation"] = ("the assert admits offsets up to +-16 MiB, but J1 / J2 are never written: offsets beyond +-4 MiB are mis-encoded",
                                 lambda row, S, P, A: and_(row.value(S, P, A) * 2 >= -16777216, row.value(S, P, A) * 2 < 16777214))
_A[TH + "BImm11Imm6Relocation"] = ("the assert admits offsets up to +-1 MiB, but J1 = J2 = S: offsets beyond +-256 KiB are mis-encoded",
                                    lambda row, S, P, A: and_(row.value(S, P, A) * 2 >= -1048576, row.value(S, P, A) * 2 < 1048574))
_A["ppci.arch.xtensa.instructions:Imm12Relocation"] = ("assert range(-2096, 2095) is wider than the signed 12-bit field",
                                                      lambda row, S, P, A: and_(row.value(S, P, A) >= 2048, row.value(S, P, A) <= 2094))
_A["ppci.arch.xtensa.instructions:Imm18Relocation"] = ("assert range(-131068, 131075) is wider than the signed 18-bit field",
                                                      lambda row, S, P, A: and_(row.value(S, P, A) >= 131072, row.value(S, P, A) <= 131074))
for _cls, _n in ((DAT + "U16DataRelocation", 16), (DAT + "U32DataRelocation", 32), (DAT + "U64DataRelocation", 64),
                 ("ppci.arch.mcs6500.instructions:AbsRelocation", 16), ("ppci.arch.mips.instructions:Abs26Relocation", 26)):
    _A[_cls] = ("a negative value down to -2^(n-1) is stored into the unsigned %d-bit address field" % _n,
                (lambda n: lambda row, S, P, A: _neghalf(row.value(S, P, A), n))(_n))
for _cls in (RV + "Abs32Imm20Relocation", RV + "Abs32Imm12Relocation", RV + "RelImm20Relocation", RV + "RelImm12Relocation",
             "ppci.arch.or1k.instructions:ConstRelocation", "ppci.arch.or1k.instructions:ConsthRelocation"):
    _A[_cls] = ("the value is masked into the field without any range check (addresses / distances beyond 32 bits are truncated)",
                lambda row, S, P, A: True)
_A[RV + "AbsAddr32Relocation"] = ("a negative symbol value is stored (two's complement) into the unsigned 32-bit word",
                                  lambda row, S, P, A: S < 0)
ACCEPTS = _A


def row_accepts(cls, S, P, A=0):
    row = _rowmap()[cls]
    return ACCEPTS[cls][1](row, S, P, A)
