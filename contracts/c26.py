"""C26 (slice) -- `#if` expression evaluation of the C preprocessor (CPreProcessor._eval_tree /
_eval_typed with the OP_MAP operator table, unary operators, && || ?: short-circuiting) against
C11 6.10.1p4: signed operands have type intmax_t (64-bit here), unsigned ones uintmax_t, arithmetic as
in 6.5/6.6 including the usual arithmetic conversions (6.3.1.8) between the two.

The literal's type (u suffix, or a value above INTMAX_MAX) is set by the parser; the symbolic contracts
build typed literals directly, the concrete whole-directive cases go through the parser."""
import io
from pyvc.engine import Contract, make_value
from pyvc.spec import and_, or_, not_, implies, ite, iff, tier
from contracts import csem as CS

M = "ppci.lang.c.preprocessor"
BITS, SIGNED = 64, True
_PP = {}


def pp():
    if "p" not in _PP:
        from ppci.lang.c import CPreProcessor, COptions
        _PP["p"] = CPreProcessor(COptions())
    return _PP["p"]


def lit(v):
    from ppci.lang.c.nodes import expressions, types
    return expressions.NumericLiteral(v, types.BasicType(types.BasicType.LONGLONG), None)


def ityp():
    from ppci.lang.c.nodes import types
    return types.BasicType(types.BasicType.LONGLONG)


def _mk2(c, g):
    lo, hi = CS.lo_hi(BITS, SIGNED)
    a = make_value(("range", lo, hi + 1), "a", c)
    b = make_value(("range", lo, hi + 1), "b", c)
    return {"args": [], "env": {"a": a, "b": b}, "inputs": {"a": a, "b": b}}


def _samples2(g, rnd):
    lo, hi = CS.lo_hi(BITS, SIGNED)
    vals = [lo, lo + 1, -7, -3, -2, -1, 0, 1, 2, 3, 7, 63, 64, hi - 1, hi, 100, -100, 1 << 31, 1 << 32]
    return [{"a": rnd.choice(vals), "b": rnd.choice(vals)} for _ in range(40)]


def _binop_call(fn, env, args, kwargs):
    from ppci.lang.c.nodes import expressions
    e = expressions.BinaryOperator(lit(env.a), env.op, lit(env.b), ityp(), True, None)
    return pp()._eval_tree(e)


def _table_ops():
    from ppci.lang.c.preprocessor import CPreProcessor
    return [op for op, (prio, ra, fn) in CPreProcessor.OP_MAP.items() if fn is not None]


CONTRACTS = []
for op in CS.ARITH + CS.COMPARE + CS.LOGIC:
    CONTRACTS.append(Contract(
        M + ":CPreProcessor._eval_tree", "C26", label="#if (a %s b)" % op, grid=[{"op": op}], modules=[M],
        make=_mk2, call=_binop_call, sample_inputs=_samples2, replay_args=lambda g, v: {"args": [], "env": dict(v)},
        requires=lambda e: CS.c_defined_steps(e.op, e.a, e.b, BITS, SIGNED),
        ensures=lambda e: [("value == C11 value of (a %s b) in intmax_t" % e.op, e.result == CS.c_binop(e.op, e.a, e.b, BITS, SIGNED)[1])]))


def _lazy_call(fn, env, args, kwargs):
    from ppci.lang.c.nodes import expressions
    div0 = expressions.BinaryOperator(lit(1), "/", lit(0), ityp(), True, None)
    if env.form in ("&&", "||"):
        e = expressions.BinaryOperator(lit(env.a), env.form, div0, ityp(), True, None)
    elif env.form == "?:then":
        e = expressions.TernaryOperator(lit(env.a), "?", lit(env.b), div0, ityp(), True, None)
    else:
        e = expressions.TernaryOperator(lit(env.a), "?", div0, lit(env.b), ityp(), True, None)
    return pp()._eval_tree(e)


CONTRACTS.append(Contract(
    M + ":CPreProcessor._eval_tree", "C26", label="#if: unevaluated operands of && || ?:",
    grid=[{"form": f} for f in ("&&", "||", "?:then", "?:else")], modules=[M],
    make=_mk2, call=_lazy_call, sample_inputs=_samples2, replay_args=lambda g, v: {"args": [], "env": dict(v)},
    requires=lambda e: [{"&&": e.a == 0, "||": e.a != 0, "?:then": e.a != 0, "?:else": e.a == 0}[e.form]],
    ensures=lambda e: [("value as C11 6.5.13-15 (the other operand, 1/0, is not evaluated)",
                        e.result == {"&&": 0, "||": 1, "?:then": e.b, "?:else": e.b}[e.form])]))


def _mk1(c, g):
    lo, hi = CS.lo_hi(BITS, SIGNED)
    a = make_value(("range", lo, hi + 1), "a", c)
    return {"args": [], "env": {"a": a}, "inputs": {"a": a}}


def _unop_call(fn, env, args, kwargs):
    from ppci.lang.c.nodes import expressions
    return pp()._eval_tree(expressions.UnaryOperator(env.op, lit(env.a), ityp(), True, None))


for op in ("-", "~", "!"):
    CONTRACTS.append(Contract(
        M + ":CPreProcessor._eval_tree", "C26", label="#if (%s a)" % op, grid=[{"op": op}], modules=[M],
        make=_mk1, call=_unop_call, sample_inputs=lambda g, rnd: [{"a": d["a"]} for d in _samples2(g, rnd)],
        replay_args=lambda g, v: {"args": [], "env": dict(v)},
        requires=lambda e: [CS.c_unop(e.op, e.a, BITS, SIGNED)[0]],
        ensures=lambda e: [("value == C11 value of (%s a) in intmax_t" % e.op, e.result == CS.c_unop(e.op, e.a, BITS, SIGNED)[1])]))


# ---- unsigned operands: the usual arithmetic conversions (6.3.1.8) in uintmax_t ---------------------
def ulit(v):
    from ppci.lang.c.nodes import expressions
    return expressions.NumericLiteral(v, pp()._uint_type, None)


def _tlit(v, unsigned):
    return ulit(v) if unsigned else lit(v)


def _mk2u(c, g):
    env = {}
    for nm, u in (("a", g["ua"]), ("b", g["ub"])):
        lo, hi = CS.lo_hi(BITS, not u)
        env[nm] = make_value(("range", lo, hi + 1), nm, c)
    return {"args": [], "env": dict(env), "inputs": dict(env)}


def _samples2u(g, rnd):
    def vals(u):
        lo, hi = CS.lo_hi(BITS, not u)
        base = [lo, lo + 1, 0, 1, 2, 3, 7, 63, 64, hi - 1, hi, 100, 1 << 31, 1 << 32, (1 << 63) - 1]
        if not u:
            base += [-7, -3, -2, -1, -100]
        else:
            base += [1 << 63, (1 << 63) + 1, (1 << 64) - 7]
        return [v for v in base if lo <= v <= hi]
    return [{"a": rnd.choice(vals(g["ua"])), "b": rnd.choice(vals(g["ub"]))} for _ in range(40)]


def _binop_typed_call(fn, env, args, kwargs):
    from ppci.lang.c.nodes import expressions
    e = expressions.BinaryOperator(_tlit(env.a, env.ua), env.op, _tlit(env.b, env.ub), ityp(), True, None)
    v, u = pp()._eval_typed(e)
    return [v, b2i_native(u)]


def b2i_native(u):
    return 1 if u else 0


def _conv(e):
    """(result type is unsigned, converted a, converted b, signedness the operation is carried out in)"""
    if e.op in ("<<", ">>"):
        return e.ua, e.a, e.b, not e.ua           # 6.5.7p3: the type of the promoted left operand
    if e.op in CS.LOGIC:
        return False, e.a, e.b, True
    un = e.ua or e.ub
    a = CS.wrap(e.a, BITS, False) if un else e.a
    b = CS.wrap(e.b, BITS, False) if un else e.b
    return (un and e.op not in CS.COMPARE), a, b, not un


def _req_u(e):
    un, a, b, sg = _conv(e)
    return CS.c_defined_steps(e.op, a, b, BITS, sg)


def _ens_u(e):
    un, a, b, sg = _conv(e)
    return [("value == C11 value of (a %s b) after the usual arithmetic conversions" % e.op,
             e.result[0] == CS.c_binop(e.op, a, b, BITS, sg)[1]),
            ("result type unsigned iff C11 says so", e.result[1] == (1 if un else 0))]


for op in CS.ARITH + CS.COMPARE + CS.LOGIC:
    CONTRACTS.append(Contract(
        M + ":CPreProcessor._eval_typed", "C26", label="#if (a %s b), unsigned operands" % op,
        grid=[{"op": op, "ua": ua, "ub": ub} for ua, ub in ((True, True), (True, False), (False, True))], modules=[M],
        make=_mk2u, call=_binop_typed_call, sample_inputs=_samples2u, replay_args=lambda g, v: {"args": [], "env": dict(v)},
        requires=_req_u, ensures=_ens_u))


def _unop_typed_call(fn, env, args, kwargs):
    from ppci.lang.c.nodes import expressions
    v, u = pp()._eval_typed(expressions.UnaryOperator(env.op, ulit(env.a), ityp(), True, None))
    return [v, b2i_native(u)]


for op in ("-", "~", "!"):
    CONTRACTS.append(Contract(
        M + ":CPreProcessor._eval_typed", "C26", label="#if (%s a), unsigned operand" % op, grid=[{"op": op, "ua": True, "ub": True}], modules=[M],
        make=_mk2u, call=_unop_typed_call, sample_inputs=_samples2u, replay_args=lambda g, v: {"args": [], "env": dict(v)},
        ensures=lambda e: [("value == C11 value of (%s a) in uintmax_t" % e.op, e.result[0] == CS.c_unop(e.op, e.a, BITS, False)[1]),
                           ("result type: ! yields int, - and ~ keep uintmax_t", e.result[1] == (0 if e.op == "!" else 1))]))


def _tern_typed_call(fn, env, args, kwargs):
    from ppci.lang.c.nodes import expressions
    div0 = expressions.BinaryOperator(lit(1), "/", _tlit(0, env.ub), ityp(), True, None)
    if env.form == "then":
        e = expressions.TernaryOperator(lit(env.c), "?", _tlit(env.a, env.ua), div0, ityp(), True, None)
    else:
        e = expressions.TernaryOperator(lit(env.c), "?", div0, _tlit(env.a, env.ua), ityp(), True, None)
    v, u = pp()._eval_typed(e)
    return [v, b2i_native(u)]


def _mk_tern(c, g):
    d = _mk2u(c, g)
    lo, hi = CS.lo_hi(BITS, True)
    cc = make_value(("range", lo, hi + 1), "c", c)
    d["env"]["c"] = cc
    d["inputs"]["c"] = cc
    return d


CONTRACTS.append(Contract(
    M + ":CPreProcessor._eval_typed", "C26", label="#if (c ? a : b): common type of both arms, one arm evaluated",
    grid=[{"form": f, "ua": ua, "ub": ub} for f in ("then", "else") for ua in (False, True) for ub in (False, True)], modules=[M],
    make=_mk_tern, call=_tern_typed_call,
    sample_inputs=lambda g, rnd: [dict(d, c=rnd.choice([0, 1, -1, 5])) for d in _samples2u(g, rnd)],
    replay_args=lambda g, v: {"args": [], "env": dict(v)},
    requires=lambda e: [(e.c != 0) if e.form == "then" else (e.c == 0)],
    ensures=lambda e: [("value: the selected arm converted to the common type (6.5.15p5); the other arm (1/0) is not evaluated",
                        e.result[0] == (CS.wrap(e.a, BITS, False) if (e.ua or e.ub) else e.a)),
                       ("result type unsigned iff either arm is", e.result[1] == (1 if (e.ua or e.ub) else 0))]))


# table completeness: every binary operator of a C11 #if expression has an entry
def _complete_call(fn, env, args, kwargs):
    return sorted(_table_ops())


CONTRACTS.append(Contract(
    M + ":CPreProcessor.parse_expression", "C26", label="OP_MAP completeness", grid=[{}], modules=[M],
    make=lambda c, g: {"args": [], "env": {}, "inputs": {}}, call=_complete_call,
    ensures=lambda e: [("OP_MAP has a function for every C binary operator allowed in #if",
                        all(op in e.result for op in CS.ARITH + CS.COMPARE + CS.LOGIC))]))


# whole-directive concrete cases (native runs; the unsigned clause of the property)
def run_if(cond):
    from ppci.lang.c import CPreProcessor, COptions
    from ppci.lang.c.token import CTokenPrinter
    p = CPreProcessor(COptions())
    toks = p.process_file(io.StringIO("#if %s\nyes\n#else\nno\n#endif\n" % cond), "x.c")
    o = io.StringIO()
    CTokenPrinter().dump(toks, file=o)
    return o.getvalue().split()[-1]


_CASES = [("-7 / 2 == -3", "yes"), ("-7 % 2 == -1", "yes"), ("7 / -2 == -3", "yes"), ("7 % -2 == 1", "yes"), ("(2 || 1/0) == 1", "yes"),
          ("0 && 1/0", "no"), ("1 ? 2 : (1/0)", "yes"), ("-1 >> 1 == -1", "yes"), ("(1 << 62) > 0", "yes"),
          ("-1 < 0u", "no"), ("0u - 1 > 0", "yes"), ("(-1) / 2u > 0", "yes"), ("~0u == 18446744073709551615u", "yes"),
          ("(1 ? -1 : 0u) < 0", "no"), ("(0 ? 0u : -1) > 0", "yes"), ("(-1 >> 1u) < 0", "yes"), ("-1 == 18446744073709551615", "yes"),
          ("-1 < 0U", "no"), ("-1 < 0uL", "no"), ("-1 < 0LLU", "no"), ("-1 < 0x0u", "no"), ("-1 < 0L", "yes"),
          ("9223372036854775808 > 0", "yes"), ("-9223372036854775807 - 1 < 0", "yes"), ("!0u - 2 < 0", "yes"),
          ("(2u > 1) - 2 < 0", "yes"), ("(1u && 1) - 2 < 0", "yes"), ("(1u << 63) > 0", "yes"), ("(1u << 63) << 1 == 0", "yes")]
CONTRACTS.append(Contract(
    M + ":CPreProcessor.process_file", "C26", label="#if directive, concrete cases (native)", grid=[{"text": t, "expect": x} for t, x in _CASES],
    make=lambda c, g: {"args": [], "env": {}, "inputs": {}}, call=lambda fn, env, a, k: run_if(env.text),
    sample_inputs=lambda g, rnd: [{}], replay_args=lambda g, v: {"args": [], "env": {}},
    ensures=lambda e: [("conditional group selected as C11 prescribes", e.result == e.expect)]))

# ---- bounded stand-in for macro expansion (never counted as proved) --------------------------------------------
# Every translation unit of a fixed corpus (the examples of C11 6.10.3.5 and hand-written corner cases) and of a
# generated corpus (2-4 object-like / function-like macros whose bodies mention parameters, other macros, calls,
# #param and a ## b; 1-3 uses) is preprocessed by the real CPreProcessor and the token sequence compared with
# the reference expander contracts/cppref.py.  A third corpus nests conditional directives.
from contracts import cppref as REF

CASES = [
 "#define A 1\nA + A\n",
 "#define f(x) x g\n#define g f\ng(1)\n",
 "#define f(x) (x+1)\nf(f(2))\n",
 "#define s(x) #x\ns(a  +   b) s( \"q\\n\" ) s()\n",
 "#define cat(a,b) a##b\ncat(x,y) cat(1,2) cat(,z) cat(w,)\n",
 "#define xcat(a,b) cat(a,b)\n#define cat(a,b) a##b\n#define N 3\nxcat(v,N) cat(v,N)\n",
 "#define x 3\n#define f(a) f(x * (a))\n#undef x\n#define x 2\n#define g f\n#define z z[0]\n#define h g(~\n#define m(a) a(w)\n#define w 0,1\n#define t(a) a\nf(y+1) + f(f(z)) % t(t(g)(0) + t)(1);\ng(x+(3,4)-w) | h 5) & m\n(f)^m(m);\n",
 "#define str(s) # s\n#define xstr(s) str(s)\n#define INCFILE(n) vers ## n\nxstr(INCFILE(2).h) str(INCFILE(2).h)\n",
 "#define t(x,y,z) x ## y ## z\nint j[] = { t(1,2,3), t(,4,5), t(6,,7), t(8,9,), t(10,,), t(,11,), t(,,12), t(,,) };\n",
 "#define OBJ_LIKE (1-1)\n#define FUNC_LIKE(a) ( a )\nOBJ_LIKE FUNC_LIKE(2) FUNC_LIKE (3) FUNC_LIKE\n",
 "#define f(a) a*g\n#define g(a) f(a)\nf(2)(9)\n",
 "#define AA BB\n#define BB AA\nAA BB\n",
 "#define e() 1\ne() e( ) e\n",
 "#define hash_hash # ## #\n#define mkstr(a) # a\n#define in_between(a) mkstr(a)\n#define join(c, d) in_between(c hash_hash d)\njoin(x, y)\n",
 "#define f(x,y) x y\nf((1,2),3) f(a,(b,c))\n",
 "#define p(x) x x\n#define q p(q)\nq\n",
 "#define a(x) b(x) c\n#define b(x) a(x) d\na(1) b(2)\n",
 "#define ID(x) x\n#define F ID(G)(1)\n#define G(x) x+F\nF\n",
 "#define s(x) #x\n#define f(a,b) a + b\ns(a\nb) s(1 +\n  2) f(1,\n2) f\n(3,\n4)\n",
 "#define s(x) #x\n#define cat(a,b) a ## b\n#define xs(x) s(x)\nxs(cat(a,\nb) c) s(\"x  y\"   'c'  z)\n",
 "#define EMPTY\n#define f(x) [x]\nf(EMPTY) f() f(EMPTY EMPTY) EMPTY f (1) EMPTY\n",
 "#define d(x) x x\n#define one 1\n#define inc(x) x + one\nd(inc(one)) d(d(one))\n",
 "#define d(x) x x\n#define t(x,y) y x y\nd(__COUNTER__) __COUNTER__ d(d(__COUNTER__)) t(__COUNTER__, __COUNTER__)\n",
]


def gen_program(rnd, feat):
    names = ["A", "B", "F", "G", "H"][:rnd.randint(2, 4)]
    kinds = {}
    lines = []
    for n in names:
        kinds[n] = rnd.choice(["obj", "fun1", "fun2"]) if n in ("F", "G", "H") else rnd.choice(["obj", "obj", "fun1"])
    def body_tok(params, depth=0):
        r = rnd.random()
        if params and r < 0.35: return rnd.choice(params)
        if r < 0.6:
            m = rnd.choice(names)
            if kinds[m] == "obj" or rnd.random() < 0.25: return m
            k = 1 if kinds[m] == "fun1" else 2
            if depth > 1: return m
            return m + "(" + ",".join(body_tok(params, depth + 1) for _ in range(k)) + ")"
        if r < 0.8: return rnd.choice(["1", "2", "x", "y", "+", "*", "-"])
        return rnd.choice(["(", ")"]) if False else rnd.choice(["z", "7"])
    for n in names:
        k = kinds[n]
        params = [] if k == "obj" else (["p"] if k == "fun1" else ["p", "q"])
        toks = [body_tok(params) for _ in range(rnd.randint(1, 4))]
        if params and "str" in feat and rnd.random() < 0.3:
            toks.insert(rnd.randint(0, len(toks)), "#" + rnd.choice(params))
        if "paste" in feat and rnd.random() < 0.3:
            a = rnd.choice(params + ["x", "v"]); b = rnd.choice(params + ["1", "w"])
            toks.insert(rnd.randint(0, len(toks)), a + " ## " + b)
        body = " ".join(toks)
        lines.append("#define %s%s %s" % (n, "" if k == "obj" else "(" + ",".join(params) + ")", body))
    uses = []
    for _ in range(rnd.randint(1, 3)):
        uses.append(body_tok([], 0))
        if rnd.random() < 0.3: uses.append(rnd.choice(["+", ";", "(3)", "(x,y)"]))
    lines.append(" ".join(uses))
    return "\n".join(lines) + "\n"



def gen_cond(rnd):
    names = ["A", "B", "N", "M"]
    lines = []
    defined = set()
    def cond():
        r = rnd.random()
        x, y = rnd.choice(names), rnd.choice(names)
        if r < 0.2: return "defined(%s)" % x
        if r < 0.3: return "!defined %s" % x
        if r < 0.45: return "%s > %d" % (x, rnd.randint(0, 2))
        if r < 0.6: return "%s == %s" % (x, y)
        if r < 0.7: return "defined(%s) && %s" % (x, y)
        if r < 0.8: return "!%s || defined(%s)" % (x, y)
        if r < 0.9: return "%d" % rnd.randint(0, 1)
        return "(%s + 1) * 2 >= %s" % (x, y)
    def block(depth):
        for _ in range(rnd.randint(1, 3)):
            r = rnd.random()
            if r < 0.3:
                lines.append("#define %s %s" % (rnd.choice(names), rnd.choice(["0", "1", "2", "A", "N", "(1)", "B + 1"])))
            elif r < 0.4:
                lines.append("#undef %s" % rnd.choice(names))
            elif r < 0.7 or depth >= 2:
                lines.append("%s x%d %s" % (rnd.choice(names), rnd.randint(0, 9), rnd.choice(names)))
            else:
                k = rnd.random()
                if k < 0.3: lines.append("#ifdef %s" % rnd.choice(names))
                elif k < 0.5: lines.append("#ifndef %s" % rnd.choice(names))
                else: lines.append("#if %s" % cond())
                block(depth + 1)
                for _ in range(rnd.randint(0, 2)):
                    lines.append("#elif %s" % cond()); block(depth + 1)
                if rnd.random() < 0.6:
                    lines.append("#else"); block(depth + 1)
                lines.append("#endif")
    block(0)
    return "\n".join(lines) + "\n"


def ppci_tokens(src):
    from ppci.lang.c import CPreProcessor, COptions
    p = CPreProcessor(COptions())
    toks = list(p.process_file(io.StringIO(src), "x.c"))
    return [t.val for t in toks if hasattr(t, "typ") and t.typ not in ("WS", "BOL")]


def _judge(src):
    """(ok, expected, observed); expected None = the reference rejects the unit (not judged)"""
    try:
        want = REF.preprocess(src)
    except (ValueError, RecursionError):
        return True, None, None
    try:
        got = ppci_tokens(src)
    except RecursionError:
        got = "raised RecursionError"
    except Exception as ex:
        got = "raised %s: %s" % (type(ex).__name__, str(ex)[:80])
    return got == want, want, got


def bounded(tier_name, rnd):
    import random
    n = 600 if tier_name == "quick" else 6000
    units = [("fixed-%d" % i, s) for i, s in enumerate(CASES)]
    r = random.Random(20260922)
    for i in range(n):
        feat = ([], ["str"], ["paste"], ["str", "paste"])[i % 4]
        units.append(("gen-%d" % i, gen_program(r, feat)))
    r2 = random.Random(20260923)
    for i in range(n // 2):
        units.append(("cond-%d" % i, gen_cond(r2)))
    evals, judged, vio, distinct = 0, 0, [], set()
    for name, src in units:
        evals += 1
        ok, want, got = _judge(src)
        if want is None:
            continue
        judged += 1
        distinct.add(src)
        if not ok and len(vio) < 8:
            vio.append({"name": "preprocessing of unit %s == reference token sequence" % name, "input": {"unit": name, "source": src},
                        "expected": repr(want)[:600], "observed": repr(got)[:600]})
    return {"evaluations": evals, "distinct_nontrivial": len(distinct), "exhaustive": False,
            "rule": "fixed corpus (%d units: C11 6.10.3.5 examples 3, 4, 5, 7 and corner cases of rescanning, hide sets, empty arguments, # and ##) plus %d generated units "
                    "(deterministic seed; 2-4 macros, bodies of 1-4 items drawn from parameters, macro names, nested calls, literals, #param, a ## b; 1-3 uses, some followed by "
                    "a parenthesised list) plus %d generated units of nested conditional directives (#ifdef / #ifndef / #if / #elif / #else / #endif over defined(), comparisons, && || !, with "
                    "#define / #undef inside taken and skipped groups); a unit counts when the reference expander accepts it (arity errors and unterminated calls are not judged); distinct = distinct source texts"
                    % (len(CASES), n, n // 2),
            "programs": judged, "samples": [{"unit": "fixed-6", "source": CASES[6]}, {"unit": units[len(CASES) + 3][0], "source": units[len(CASES) + 3][1]}],
            "bound": "macro expansion and conditional directives (no includes, variadic macros, comments, line splices, #if arithmetic beyond small literals); short units; %s tier: %d + %d generated units" % (tier_name, n, n // 2),
            "violations": vio}


def replay_bounded(inp):
    ok, want, got = _judge(inp["source"])
    return ok, {"unit": inp.get("unit"), "source": inp["source"], "expected": repr(want)[:600], "observed": repr(got)[:600]}


ASSUMED = ["contracts/cppref.py implements C11 6.10.3 (cross-validated against gcc's cpp during development; gcc is not needed at run time)",
           "contracts/csem.py is C11 integer semantics; intmax_t / uintmax_t are 64-bit, two's complement",
           "literal typing (u suffix or value above INTMAX_MAX => uintmax_t) is done by the parser (parse_expression / cnum): covered by the "
           "concrete whole-directive cases only; the symbolic contracts build typed literals"]
NOT_COVERED = ["macro expansion, hide sets, stringification and token pasting beyond the bounded stand-in (token-sequence equality with a conforming preprocessor for "
               "all translation units is outside contract reach); variadic macros, conditional-directive nesting, includes, comments, line splices, predefined macros",
               "the parser of #if expressions (precedence, literal suffixes) beyond the concrete cases"]
