"""C26 (slice) -- `#if` expression evaluation of the C preprocessor (CPreProcessor._eval_tree with the
OP_MAP operator table, unary operators, && || ?: short-circuiting) against C11 6.10.1p4: operands
have type intmax_t (64-bit signed here), arithmetic as in 6.5/6.6.

Unsigned operands (uintmax_t arithmetic for literals with a u suffix / values above INTMAX_MAX) are
invisible at this level: the parser drops the suffix.  That clause is checked on the whole
preprocessor with concrete directives (native runs, not proof) and is a recorded known finding."""
import io
from pyvc.engine import Contract, make_value
from pyvc.spec import and_, or_, not_, implies, ite, iff, tier
from contracts import csem as CS

M = "ppci.lang.c.preprocessor"
BITS, SIGNED = 64, True
_PP = {}


def pp():
    if "p" not in _PP:
        from ppci.lang.c import CPreProcessor, COptions
        _PP["p"] = CPreProcessor(COptions())
    return _PP["p"]


def lit(v):
    from ppci.lang.c.nodes import expressions, types
    return expressions.NumericLiteral(v, types.BasicType(types.BasicType.LONGLONG), None)


def ityp():
    from ppci.lang.c.nodes import types
    return types.BasicType(types.BasicType.LONGLONG)


def _mk2(c, g):
    lo, hi = CS.lo_hi(BITS, SIGNED)
    a = make_value(("range", lo, hi + 1), "a", c)
    b = make_value(("range", lo, hi + 1), "b", c)
    return {"args": [], "env": {"a": a, "b": b}, "inputs": {"a": a, "b": b}}


def _samples2(g, rnd):
    lo, hi = CS.lo_hi(BITS, SIGNED)
    vals = [lo, lo + 1, -7, -3, -2, -1, 0, 1, 2, 3, 7, 63, 64, hi - 1, hi, 100, -100, 1 << 31, 1 << 32]
    return [{"a": rnd.choice(vals), "b": rnd.choice(vals)} for _ in range(40)]


def _binop_call(fn, env, args, kwargs):
    from ppci.lang.c.nodes import expressions
    e = expressions.BinaryOperator(lit(env.a), env.op, lit(env.b), ityp(), True, None)
    return pp()._eval_tree(e)


def _table_ops():
    from ppci.lang.c.preprocessor import CPreProcessor
    return [op for op, (prio, ra, fn) in CPreProcessor.OP_MAP.items() if fn is not None]


CONTRACTS = []
for op in CS.ARITH + CS.COMPARE + CS.LOGIC:
    CONTRACTS.append(Contract(
        M + ":CPreProcessor._eval_tree", "C26", label="#if (a %s b)" % op, grid=[{"op": op}], modules=[M],
        make=_mk2, call=_binop_call, sample_inputs=_samples2, replay_args=lambda g, v: {"args": [], "env": dict(v)},
        requires=lambda e: CS.c_defined_steps(e.op, e.a, e.b, BITS, SIGNED),
        ensures=lambda e: [("value == C11 value of (a %s b) in intmax_t" % e.op, e.result == CS.c_binop(e.op, e.a, e.b, BITS, SIGNED)[1])]))


def _lazy_call(fn, env, args, kwargs):
    from ppci.lang.c.nodes import expressions
    div0 = expressions.BinaryOperator(lit(1), "/", lit(0), ityp(), True, None)
    if env.form in ("&&", "||"):
        e = expressions.BinaryOperator(lit(env.a), env.form, div0, ityp(), True, None)
    elif env.form == "?:then":
        e = expressions.TernaryOperator(lit(env.a), "?", lit(env.b), div0, ityp(), True, None)
    else:
        e = expressions.TernaryOperator(lit(env.a), "?", div0, lit(env.b), ityp(), True, None)
    return pp()._eval_tree(e)


CONTRACTS.append(Contract(
    M + ":CPreProcessor._eval_tree", "C26", label="#if: unevaluated operands of && || ?:",
    grid=[{"form": f} for f in ("&&", "||", "?:then", "?:else")], modules=[M],
    make=_mk2, call=_lazy_call, sample_inputs=_samples2, replay_args=lambda g, v: {"args": [], "env": dict(v)},
    requires=lambda e: [{"&&": e.a == 0, "||": e.a != 0, "?:then": e.a != 0, "?:else": e.a == 0}[e.form]],
    ensures=lambda e: [("value as C11 6.5.13-15 (the other operand, 1/0, is not evaluated)",
                        e.result == {"&&": 0, "||": 1, "?:then": e.b, "?:else": e.b}[e.form])]))


def _mk1(c, g):
    lo, hi = CS.lo_hi(BITS, SIGNED)
    a = make_value(("range", lo, hi + 1), "a", c)
    return {"args": [], "env": {"a": a}, "inputs": {"a": a}}


def _unop_call(fn, env, args, kwargs):
    from ppci.lang.c.nodes import expressions
    return pp()._eval_tree(expressions.UnaryOperator(env.op, lit(env.a), ityp(), True, None))


for op in ("-", "~", "!"):
    CONTRACTS.append(Contract(
        M + ":CPreProcessor._eval_tree", "C26", label="#if (%s a)" % op, grid=[{"op": op}], modules=[M],
        make=_mk1, call=_unop_call, sample_inputs=lambda g, rnd: [{"a": d["a"]} for d in _samples2(g, rnd)],
        replay_args=lambda g, v: {"args": [], "env": dict(v)},
        requires=lambda e: [CS.c_unop(e.op, e.a, BITS, SIGNED)[0]],
        ensures=lambda e: [("value == C11 value of (%s a) in intmax_t" % e.op, e.result == CS.c_unop(e.op, e.a, BITS, SIGNED)[1])]))


# table completeness: every binary operator of a C11 #if expression has an entry
def _complete_call(fn, env, args, kwargs):
    return sorted(_table_ops())


CONTRACTS.append(Contract(
    M + ":CPreProcessor.parse_expression", "C26", label="OP_MAP completeness", grid=[{}], modules=[M],
    make=lambda c, g: {"args": [], "env": {}, "inputs": {}}, call=_complete_call,
    ensures=lambda e: [("OP_MAP has a function for every C binary operator allowed in #if",
                        all(op in e.result for op in CS.ARITH + CS.COMPARE + CS.LOGIC))]))


# whole-directive concrete cases (native runs; the unsigned clause of the property)
def run_if(cond):
    from ppci.lang.c import CPreProcessor, COptions
    from ppci.lang.c.token import CTokenPrinter
    p = CPreProcessor(COptions())
    toks = p.process_file(io.StringIO("#if %s\nyes\n#else\nno\n#endif\n" % cond), "x.c")
    o = io.StringIO()
    CTokenPrinter().dump(toks, file=o)
    return o.getvalue().split()[-1]


_CASES = [("-7 / 2 == -3", "yes"), ("-7 % 2 == -1", "yes"), ("7 / -2 == -3", "yes"), ("7 % -2 == 1", "yes"), ("(2 || 1/0) == 1", "yes"),
          ("0 && 1/0", "no"), ("1 ? 2 : (1/0)", "yes"), ("-1 >> 1 == -1", "yes"), ("(1 << 62) > 0", "yes"),
          ("-1 < 0u", "no"), ("0u - 1 > 0", "yes"), ("(-1) / 2u > 0", "yes"), ("~0u == 18446744073709551615u", "yes")]
CONTRACTS.append(Contract(
    M + ":CPreProcessor.process_file", "C26", label="#if directive, concrete cases (native)", grid=[{"text": t, "expect": x} for t, x in _CASES],
    make=lambda c, g: {"args": [], "env": {}, "inputs": {}}, call=lambda fn, env, a, k: run_if(env.text),
    sample_inputs=lambda g, rnd: [{}], replay_args=lambda g, v: {"args": [], "env": {}},
    ensures=lambda e: [("conditional group selected as C11 prescribes", e.result == e.expect)]))

ASSUMED = ["contracts/csem.py is C11 integer semantics; intmax_t is 64-bit two's complement",
           "operands of the symbolic contracts are intmax_t values (signed); see the known finding for uintmax_t operands"]
NOT_COVERED = ["macro expansion, hide sets, stringification, token pasting, directive handling (token-sequence equality with a conforming "
               "preprocessor is outside contract reach)", "the parser of #if expressions (precedence, literal suffixes)"]
