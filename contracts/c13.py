"""C13 (slice) -- linker relaxation bookkeeping (ppci/binutils/linker.py: Linker._apply_relaxation_holes with its
nested count_holes; ppci/arch/riscv/rvc_relocations.py: can_shrink / do_shrink of the relaxable jumps).

Shape-bounded symbolic execution of the REAL code (bounded stand-in, never counted as proved without bound):
an output object with two images (sections A, B in the first, C in the second), one or two holes of two bytes in
section A at symbolic offsets, symbols and a relocation at symbolic offsets, section contents of ANY length.
Obligations taken from the property: every symbol / relocation / byte after removed bytes moves down by exactly the
number of bytes removed before it and still designates the same byte; section addresses inside an image shift by the
bytes removed from earlier sections of THAT image; nothing else moves.
Deductive (all values): can_shrink => the compressed relocation that do_shrink installs can represent the distance
(otherwise relaxation would turn a linkable program into an unlinkable or mis-linked one); do_shrink produces the
16-bit c.j / c.jal opcode bits and exactly one bc_imm11 relocation.
Not covered: "the relaxed program computes the same results" (needs an emulator: outside this family)."""
import types
from collections import defaultdict
import z3
from pyvc.engine import Contract, make_value
from pyvc.spec import and_, or_, not_, implies, ite, iff, tier, seq_eq, seq_at, seq_len
from pyvc.sym import SymInt, SymSeq, ctx, as_z3_int
from pyvc import sym as S
from pyvc import models as MD
from contracts import relocspec as RS

MODS = ["ppci.binutils.linker", "ppci.binutils.objectfile"]


def _arch():
    return types.SimpleNamespace(isa=types.SimpleNamespace(relocation_map={}), name="spec")


def _len(x):
    return x._len() if isinstance(x, SymSeq) else len(x)


def _copy(x):
    return SymSeq(x.e, "bytearray", x.elem_bounds) if isinstance(x, SymSeq) else bytearray(x)


def _mk_holes(c, g):
    env = {"data": make_value("bytearray", "data", c), "symval": make_value("int", "symval", c), "reloff": make_value("int", "reloff", c),
           "symb": make_value("int", "symb", c), "aA": make_value("int", "aA", c), "aB": make_value("int", "aB", c), "aC": make_value("int", "aC", c)}
    for i in range(g["nholes"]):
        env["h%d" % i] = make_value("int", "h%d" % i, c)
    return {"args": [], "env": env, "inputs": dict(env)}


def _holes_pre(e):
    out = [e.symval >= 0, e.symval <= _len(e.data), e.reloff >= 0, e.reloff <= _len(e.data), e.symb >= 0]
    prev_end = 0
    for i in range(e.nholes):
        h = e["h%d" % i]
        out += [h >= prev_end, h + 2 <= _len(e.data)]
        prev_end = h + 2
    return out


def _holes_call(fn, env, args, kwargs):
    from ppci.binutils.linker import Linker
    from ppci.binutils.objectfile import ObjectFile, RelocationEntry, Image
    lk = Linker(_arch())
    dst = lk.dst = ObjectFile(_arch())
    A = dst.get_section("A", create=True)
    B = dst.get_section("B", create=True)
    C = dst.get_section("C", create=True)
    A.data = _copy(env.data)
    B.data = bytearray(b"\x01\x02\x03\x04")
    C.data = bytearray(b"\x05\x06")
    A.address, B.address, C.address = env.aA, env.aB, env.aC
    img1 = Image("flash", env.aA)
    img1.add_section(A)
    img1.add_section(B)
    img2 = Image("ram", env.aC)
    img2.add_section(C)
    dst.add_image(img1)
    dst.add_image(img2)
    sA = dst.add_symbol(0, "inA", "global", env.symval, "A", "func", 0)
    sB = dst.add_symbol(1, "inB", "global", env.symb, "B", "object", 0)
    sAbs = dst.add_symbol(2, "abs", "global", 1234, None, "object", 0)
    rel = dst.add_relocation(RelocationEntry("r", 1, "A", env.reloff, 0))
    hm = defaultdict(list)
    hm["A"] = [(env["h%d" % i], 2) for i in range(env.nholes)]
    env.update({"A": A, "B": B, "C": C, "sA": sA, "sB": sB, "sAbs": sAbs, "rel": rel})
    fn(lk, hm)
    return dst


def _removed_before(e, off):
    t = 0
    for i in range(e.nholes):
        t = t + ite(e["h%d" % i] < off, lambda: 2, lambda: 0)
    return t


def _holes_post(e):
    o = e.old if S.active() else e
    total = 2 * e.nholes
    new = e.A.data
    res = [
        ("symbol in the relaxed section moves down by the bytes removed before it", e.sA.value == o.symval - _removed_before(o, o.symval)),
        ("relocation offset moves down by the bytes removed before it", e.rel.offset == o.reloff - _removed_before(o, o.reloff)),
        ("symbol in another section does not move", e.sB.value == o.symb),
        ("absolute symbol does not move", e.sAbs.value == 1234),
        ("section shrinks by the total hole size", seq_len(new) == _len(o.data) - total),
        ("first section of the image keeps its address", e.A.address == o.aA),
        ("next section of the same image moves down by the bytes removed from earlier sections", e.B.address == o.aB - total),
        ("a section in another image does not move", e.C.address == o.aC),
        ("other sections keep their contents", bytes(e.B.data) == b"\x01\x02\x03\x04" and bytes(e.C.data) == b"\x05\x06"),
    ]
    # every surviving byte keeps its value at its shifted position (arbitrary index k outside the holes)
    if S.active():
        k = SymInt(z3.Int(ctx().fresh_name("k")))
        inhole = or_(*[and_(k >= o["h%d" % i], k < o["h%d" % i] + 2) for i in range(e.nholes)]) if e.nholes else False
        res.append(("a byte outside the holes keeps its value at (index - bytes removed before it)",
                    implies(and_(k >= 0, k < _len(o.data), not_(inhole)), seq_at(new, k - _removed_before(o, k)) == seq_at(o.data, k))))
    else:
        keep = [b for idx, b in enumerate(o.data) if not any(o["h%d" % i] <= idx < o["h%d" % i] + 2 for i in range(e.nholes))]
        res.append(("surviving bytes keep their order and values", bytes(new) == bytes(keep)))
    return res


def _holes_samples(g, rnd):
    out = []
    for _ in range(16):
        n = rnd.choice([4, 6, 8, 12])
        d = {"data": {"__bytearray__": [rnd.randrange(256) for _ in range(n)]}, "symval": rnd.randrange(0, n + 1), "reloff": rnd.randrange(0, n + 1), "symb": rnd.randrange(0, 4),
             "aA": 0x100, "aB": 0x100 + n, "aC": 0x2000}
        hs = sorted(rnd.sample(range(0, n - 1, 2), g["nholes"])) if n // 2 >= g["nholes"] else None
        if hs is None:
            continue
        for i, h in enumerate(hs):
            d["h%d" % i] = h
        out.append(d)
    return out


BOUNDED = [Contract(
    "ppci.binutils.linker:Linker._apply_relaxation_holes", "C13",
    label="Linker._apply_relaxation_holes [shape-bounded: 2 images / 3 sections, 0..2 holes, 3 symbols, 1 relocation]",
    grid=[{"nholes": n} for n in (0, 1, 2)], modules=MODS, make=_mk_holes, call=_holes_call, sample_inputs=_holes_samples,
    replay_args=lambda g, v: {"args": [], "env": dict(v)}, requires=_holes_pre, ensures=_holes_post)]

# ---- can_shrink / do_shrink (deductive: all symbol values and positions) -------------------------------------------
RVC = "ppci.arch.riscv.rvc_relocations"
_BC_ROW = [r for r in RS.ROWS if r.cls.endswith("BcImm11Relocation")][0]


def _shrink_call(fn, env, args, kwargs):
    import importlib
    cls = getattr(importlib.import_module(RVC), env.cls)
    return cls("sym").can_shrink(env.S, env.P)


CONTRACTS = []
for _cls in ("CBImm11Relocation", "CBlImm11Relocation"):
    CONTRACTS.append(Contract(
        RVC + ":%s.can_shrink" % _cls, "C13", params={"S": "int", "P": "int"}, grid=[{"cls": _cls}], modules=[RVC, "ppci.utils.bitfun"],
        call=_shrink_call, requires=lambda e: [e.S % 2 == 0, e.P % 2 == 0],
        ensures=lambda e: [("can_shrink => the distance is representable by the compressed jump (signed 12-bit byte offset, even)",
                            implies(e.result, _BC_ROW.rep(e.S, e.P, 0)))]))


def _mk_do(c, g):
    data = MD.SymBuf.fresh(c, "data", 4)
    S_ = make_value("int", "S", c)
    P = make_value("int", "P", c)
    return {"args": [], "env": {"S": S_, "P": P, "data": data}, "inputs": {"S": S_, "P": P}}


def _do_call(fn, env, args, kwargs):
    import importlib
    cls = getattr(importlib.import_module(RVC), env.cls)
    data = env.data if isinstance(env.data, MD.SymBuf) else bytearray(b"\xef\xbe\xad\xde")
    env["before"] = list(data.items) if isinstance(data, MD.SymBuf) else list(data)
    return cls("sym").do_shrink(env.S, data, env.P)


def _do_post(e):
    import importlib
    mod = importlib.import_module(RVC)
    data, relocs = e.result
    items = MD.buf_items(data)
    hw = items[0] + 256 * items[1] if len(items) == 2 else None
    funct3 = 0b101 if e.cls == "CBImm11Relocation" else 0b001
    out = [("the instruction shrinks to 2 bytes", len(items) == 2),
           ("exactly one new relocation of the compressed jump type", len(relocs) == 1 and type(relocs[0]) is mod.BcImm11Relocation)]
    if hw is not None:
        out += [("quadrant bits [1:0] == 01", hw % 4 == 1), ("funct3 bits [15:13] select %s" % ("c.j" if funct3 == 5 else "c.jal"), (hw // 8192) % 8 == funct3)]
    return out


for _cls in ("CBImm11Relocation", "CBlImm11Relocation"):
    CONTRACTS.append(Contract(
        RVC + ":%s.do_shrink" % _cls, "C13", grid=[{"cls": _cls}], modules=[RVC, "ppci.utils.bitfun"], make=_mk_do, call=_do_call,
        sample_inputs=lambda g, rnd: [{"S": 0x100, "P": 0x80}], replay_args=lambda g, v: {"args": [], "env": {"S": v["S"], "P": v["P"], "data": None}},
        requires=lambda e: [e.S % 2 == 0, e.P % 2 == 0], ensures=_do_post))

CONTRACTS += BOUNDED
BOUNDED_LABELS = [c.label for c in BOUNDED]
BOUNDS_TEXT = "two images (sections A, B | C), 0..2 two-byte holes in A at symbolic offsets, symbols / relocation at symbolic offsets, contents of A of any length"
ASSUMED = ["the bc_imm11 specification row of contracts/relocspec.py (RVC CJ format: signed 12-bit even byte offset)", "holes are sorted by offset and do not overlap (as do_relaxations produces them)"]
NOT_COVERED = ["that the relaxed program computes the same results (needs execution / an emulator)", "do_relaxations' selection loop and relocation replacement, alignment of shifted sections (see C12 / source TODO)",
               "more than two holes per section, holes in several sections (shape bound)"]


# ---- do_relaxations: modular (relocation class = specification stub, _apply_relaxation_holes = recorder) --------------------
def _mk_relax(c, g):
    env = {"data": MD.SymBuf.fresh(c, "data", 16), "symval": make_value("int", "symval", c), "aA": make_value("int", "aA", c), "add0": make_value("int", "add0", c)}
    from pyvc.sym import SymBool
    env["sh0"] = SymBool(z3.Bool("shrink0"))
    env["sh1"] = SymBool(z3.Bool("shrink1"))
    return {"args": [], "env": env, "inputs": {k: v for k, v in env.items() if k != "data"}}


def _relax_call(fn, env, args, kwargs):
    from ppci.binutils.linker import Linker
    from ppci.binutils.objectfile import ObjectFile, RelocationEntry
    rec = {"can": [], "do": [], "holes": None}
    shrink = {0: env.sh0, 1: env.sh1}

    class Short:
        name = "short"

        def __init__(self, symbol_name, offset=0, addend=0):
            pass

    class Long:
        name = "long"

        def __init__(self, symbol_name, offset=0, addend=0):
            self.symbol_name, self.offset, self.addend = symbol_name, offset, addend

        @classmethod
        def size(cls):
            return 4

        def _idx(self):
            return 0 if (self.offset is env.off0 or (not S.active() and self.offset == env.off0)) else 1

        def can_shrink(self, sym_value, reloc_value):
            rec["can"].append((self._idx(), sym_value, reloc_value))
            return shrink[self._idx()]

        def do_shrink(self, sym_value, data, reloc_value):
            i = self._idx()
            if S.active():
                out = MD.SymBuf.fresh(ctx(), "short%d" % i, 2)
            else:
                out = bytearray([0x01 + i, 0xA0])
            rec["do"].append((i, data, out))
            return out, [Short(None)]
    class Fixed:
        """a relocation type that can never be relaxed (Relocation.can_shrink's default)"""
        name = "fixed"

        def __init__(self, symbol_name, offset=0, addend=0):
            pass

        def can_shrink(self, sym_value, reloc_value):
            return False
    arch = types.SimpleNamespace(isa=types.SimpleNamespace(relocation_map={"long": Long, "short": Short, "fixed": Fixed}), name="spec")
    lk = Linker(arch)
    dst = lk.dst = ObjectFile(arch)
    A = dst.get_section("A", create=True)
    A.data = env.data.snapshot() if isinstance(env.data, MD.SymBuf) else bytearray(env.data)
    env["data0"] = list(A.data.items) if isinstance(A.data, MD.SymBuf) else list(A.data)
    A.address = env.aA
    dst.add_symbol(0, "target", "global", env.symval, "A", "func", 0)
    r0 = dst.add_relocation(RelocationEntry("long", 0, "A", env.off0, env.add0))
    r1 = dst.add_relocation(RelocationEntry("long", 0, "A", env.off1, 0))
    # a second section with a non-relaxable relocation at the SAME section-relative offset as relocation 0
    Bs = dst.get_section("B", create=True)
    Bs.data = bytearray(range(40, 56))
    Bs.address = 0x4000
    r2 = dst.add_relocation(RelocationEntry("fixed", 0, "B", env.off0, 7))
    env["r2"] = r2
    lk._apply_relaxation_holes = lambda hole_map: rec.__setitem__("holes", {k: list(v) for k, v in hole_map.items()})
    env.update({"lk": lk, "rec": rec, "A": A, "dst": dst})
    fn(lk)
    return dst


def _relax_pre(e):
    return []


def _relax_post(e):
    o = e.old if S.active() else e
    rec = e.rec
    sh = [bool(o.sh0), bool(o.sh1)]          # forks: one path per combination
    offs = [o.off0, o.off1]
    out = [("can_shrink is asked once per relocation, with S = symbol value + section address and P = section address + offset",
            len(rec["can"]) == 2 and all(bool_(sv == o.symval + o.aA) and bool_(rv == o.aA + offs[i]) for (i, sv, rv) in rec["can"]))]
    rel = e.dst.relocations
    out.append(("still three relocations", len(rel) == 3))
    keep = [r for r in rel if r.section == "B"]
    out.append(("the relocation of the other section (same offset, not relaxable) is kept untouched",
                len(keep) == 1 and keep[0].reloc_type == "fixed" and keep[0].symbol_id == 0 and bool_(keep[0].offset == offs[0]) and keep[0].addend == 7))
    out.append(("the other section's bytes are untouched", bytes(e.dst.get_section("B").data) == bytes(range(40, 56))))
    rel = [r for r in rel if r.section == "A"]
    want_holes = [(offs[i] + 2, 2) for i in (0, 1) if sh[i]]
    if want_holes:
        got = (rec["holes"] or {}).get("A", [])
        out.append(("the holes handed on are (offset + 2, 2) for every shrunk relocation, sorted by offset",
                    len(got) == len(want_holes) and all(bool_(g[0] == w[0]) and g[1] == w[1] for g, w in zip(got, want_holes))))
    else:
        out.append(("nothing to relax: no holes are punched", rec["holes"] is None))
    if len(rel) == 2:
        for i in (0, 1):
            match = [r for r in rel if bool_(r.offset == offs[i])]
            ok = len(match) >= 1 and any(r.reloc_type == ("short" if sh[i] else "long") and r.symbol_id == 0 and r.section == "A"
                                         and bool_(r.addend == (o.add0 if i == 0 else 0)) for r in match)
            out.append(("relocation %d is %s at the same site with the same symbol and addend" % (i, "replaced by the short form" if sh[i] else "kept"), ok))
    new = MD.buf_items(e.A.data)
    old_items = e.data0
    out.append(("section length unchanged by do_relaxations itself", len(new) == len(old_items)))
    patched = {}
    for (i, _data_in, short) in rec["do"]:
        si = MD.buf_items(short)
        patched[offs[i]] = si[0]
        patched[offs[i] + 1] = si[1]
    for k in range(min(len(new), len(old_items))):
        if k in patched:
            out.append(("byte %d is the patched half-word of the shrunk instruction" % k, new[k] == patched[k]))
        else:
            out.append(("byte %d outside the patched half-words is unchanged (before the holes are punched)" % k, new[k] == old_items[k]))
    return out


def bool_(x):
    return bool(x)


BOUNDED.append(Contract(
    "ppci.binutils.linker:Linker.do_relaxations", "C13",
    label="Linker.do_relaxations [shape-bounded: 2 relaxable relocations at fixed offsets in a 16-byte section + 1 fixed relocation at the same offset in a second section; relocation class and hole punching abstracted]",
    grid=[{"off0": a, "off1": b} for a, b in ((0, 4), (2, 8), (4, 12))],
    modules=MODS, make=_mk_relax, call=_relax_call, requires=_relax_pre, ensures=_relax_post,
    sample_inputs=lambda g, rnd: [{"symval": 4, "aA": 0x100, "add0": 0, "sh0": a, "sh1": b} for a in (True, False) for b in (True, False)],
    replay_args=lambda g, v: {"args": [], "env": dict(list(v.items()) + [("data", bytearray(range(16, 32)))])}))
CONTRACTS.append(BOUNDED[-1])
BOUNDED_LABELS.append(BOUNDED[-1].label)
