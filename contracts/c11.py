"""C11 -- linked references resolve exactly to their symbols: value/layout/frame clause
of every relocation class against its specification row; symbol value lookup; the
linker's per-relocation patching."""
from pyvc.engine import Contract
from contracts import relocrows as RR, relocspec as RS

CONTRACTS = RR.value_contracts("C11")
ASSUMED = ["specification rows (contracts/relocspec.py) are the ISA meaning of each relocation type (T5); rows marked structure-only "
           "take the layout from the token class and the formula from the class itself"]
NOT_COVERED = ["objdump-level decoding of whole instructions", "relocation classes without a row: %s" % sorted(RS.NO_ROW)]
