"""C11 -- linked references resolve exactly to their symbols: value/layout/frame clause
of every relocation class against its specification row (for every representable value the
patched field decodes to V(S, A, P) and no other bit changes), the complementary clause
that a value which is NOT representable never links silently (otherwise the patched field
cannot decode to V), symbol value lookup and the linker's per-relocation patching."""
from pyvc.engine import Contract
from contracts import relocrows as RR, relocspec as RS, c11link

CONTRACTS = RR.value_contracts("C11") + RR.reject_contracts("C11") + c11link.CONTRACTS
ASSUMED = ["specification rows (contracts/relocspec.py) are the ISA meaning of each relocation type (T5); rows marked structure-only "
           "take the layout from the token class and the formula from the class itself"]
NOT_COVERED = ["objdump-level decoding of whole instructions", "relocation classes without a row: %s" % sorted(RS.NO_ROW)]
KNOWN_HELPERS = {"row_accepts": RS.row_accepts}
