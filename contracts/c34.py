"""C34 -- build task runner: execution order and loop detection (ppci/build/tasks.py).

Bounded stand-in only (graph algorithms over sets of named targets; no SMT-backed contract within
reach): the postcondition of TaskRunner.run is stated from the property and evaluated at run time on
the real code for EVERY dependency graph over up to N targets and EVERY non-empty set of requested
targets:
  * the part of the graph reachable from the requested targets contains a cycle  <=>  TaskError (loop) is raised,
    and then nothing is executed;
  * otherwise exactly the requested targets and their transitive dependencies are executed, each once,
    each after all of its dependencies.
Also: Project.dependencies(t) == the transitive closure of the dependency relation from t (acyclic graphs)."""
import itertools
import multiprocessing as mp

CONTRACTS = []
LEVEL = "exploration"
NAMES = ["a", "b", "c", "d", "e"]


def _closure(deps, start):
    seen = set()
    work = list(deps[start])
    while work:
        x = work.pop()
        if x not in seen:
            seen.add(x)
            work.extend(deps[x])
    return seen


def _has_cycle_from(deps, roots):
    reach = set(roots)
    for r in roots:
        reach |= _closure(deps, r)
    return any(x in _closure(deps, x) for x in reach)


def run_case(n, edges, requested, then=None):
    """one run of the real TaskRunner; returns list of failed postconditions.
    then = ((a, b), requested2): history variant -- after the first run the dependency a -> b is added to the same
    project (Target.add_dependency on an already added target) and the same runner runs again; the second run is
    judged against the property for the new graph"""
    import logging
    from ppci.build import tasks as T
    names = NAMES[:n]
    deps = {x: set() for x in names}
    for a, b in edges:
        deps[names[a]].add(names[b])
    log = []

    class Rec(T.Task):
        def run(self):
            log.append(self.target.name)
    T.task_map["__rec__"] = Rec
    try:
        proj = T.Project("p")
        for x in names:
            t = T.Target(x, proj)
            t.add_task(("__rec__", {}))
            for d in sorted(deps[x]):
                t.add_dependency(d)
            proj.add_target(t)
        runner = T.TaskRunner()
        runner.logger = logging.getLogger("c34-silent")
        runner.logger.disabled = True
        first = _judge(T, proj, runner, names, deps, [names[i] for i in requested], log)
        if first or then is None:
            return first
        (a, b), requested2 = then
        proj.get_target(names[a]).add_dependency(names[b])
        deps[names[a]].add(names[b])
        del log[:]
        return ["after a first run and add_dependency(%s -> %s) on the same project: %s" % (names[a], names[b], e)
                for e in _judge(T, proj, runner, names, deps, [names[i] for i in requested2], log)]
    finally:
        T.task_map.pop("__rec__", None)


def _judge(T, proj, runner, names, deps, req, log):
    if True:
        errs = []
        cyc = _has_cycle_from(deps, req)
        try:
            runner.run(proj, req)
            raised = None
        except T.TaskError as e:
            raised = e
        except Exception as e:
            return ["no exception other than TaskError (a loop must be *reported*), got %s" % (type(e).__name__,)]
        if cyc:
            if raised is None:
                errs.append("a dependency loop reachable from the requested targets is reported (TaskError)")
            elif log:
                errs.append("nothing is executed when a loop is reported, executed %s" % log)
        else:
            if raised is not None:
                errs.append("no loop is reported for an acyclic reachable graph, got %r" % (raised,))
            else:
                want = set(req)
                for r in req:
                    want |= _closure(deps, r)
                if sorted(log) != sorted(want):
                    errs.append("executed targets == requested + transitive dependencies, each once: want %s, got %s" % (sorted(want), log))
                pos = {x: i for i, x in enumerate(log)}
                for x in log:
                    for d in deps[x]:
                        if d in pos and pos[d] > pos[x]:
                            errs.append("%s runs after its dependency %s (order %s)" % (x, d, log))
            for x in names:
                if x not in _closure(deps, x) and not _has_cycle_from(deps, [x]):
                    got = proj.dependencies(x)
                    if got != _closure(deps, x):
                        errs.append("dependencies(%s) == transitive closure %s, got %s" % (x, sorted(_closure(deps, x)), sorted(got)))
        return errs


def _chunk(args):
    n, self_loops, lo, hi = args
    pairs = [(a, b) for a in range(n) for b in range(n) if self_loops or a != b]
    subsets = [s for k in range(1, n + 1) for s in itertools.combinations(range(n), k)]
    ev = 0
    bad = []
    for mask in range(lo, hi):
        edges = [pairs[i] for i in range(len(pairs)) if (mask >> i) & 1]
        for req in subsets:
            for order in ([req] if len(req) < 2 else [req, tuple(reversed(req))]):
                ev += 1
                r = run_case(n, edges, order)
                if r and len(bad) < 3:
                    bad.append((n, edges, list(order), r[0]))
    return ev, bad


def _chunk_history(args):
    """run, add one dependency to the live project, run again: every relation over n targets without self loops x every
    absent edge x every single requested target (first and second run)"""
    n, lo, hi = args
    pairs = [(a, b) for a in range(n) for b in range(n) if a != b]
    ev = 0
    bad = []
    for mask in range(lo, hi):
        edges = [pairs[i] for i in range(len(pairs)) if (mask >> i) & 1]
        for extra in pairs:
            if extra in edges:
                continue
            for r1 in range(n):
                for r2 in range(n):
                    ev += 1
                    r = run_case(n, edges, (r1,), (extra, (r2,)))
                    if r and len(bad) < 3:
                        bad.append((n, edges, [r1], [list(extra), [r2]], r[0]))
    return ev, bad


def bounded(tier_name, rnd):
    plan = [(1, True), (2, True), (3, True), (4, False)] if tier_name == "quick" else [(1, True), (2, True), (3, True), (4, True)]
    jobs = []
    for n, sl in plan:
        npairs = n * n if sl else n * (n - 1)
        total = 1 << npairs
        step = max(total // 32, 1)
        for lo in range(0, total, step):
            jobs.append((n, sl, lo, min(lo + step, total)))
    hn = 3 if tier_name == "quick" else 4
    hjobs = []
    for n in range(2, hn + 1):
        total = 1 << (n * (n - 1))
        step = max(total // 32, 1)
        hjobs += [(n, lo, min(lo + step, total)) for lo in range(0, total, step)]
    with mp.get_context("fork").Pool(16) as pool:
        res = pool.map(_chunk, jobs)
        hres = pool.map(_chunk_history, hjobs)
    ev = sum(r[0] for r in res) + sum(r[0] for r in hres)
    vio = []
    for _, bad in hres:
        for (n, edges, req, then, what) in bad:
            if len(vio) < 5:
                vio.append({"name": "%s [targets=%d deps=%s requested=%s then=%s]" % (what, n, edges, req, then),
                            "input": {"n": n, "edges": [list(e) for e in edges], "requested": req, "then": then}, "observed": what})
    for _, bad in res:
        for (n, edges, req, what) in bad:
            if len(vio) < 5:
                vio.append({"name": "%s [targets=%d deps=%s requested=%s]" % (what, n, edges, req), "input": {"n": n, "edges": [list(e) for e in edges], "requested": req},
                            "observed": what})
    return {"evaluations": ev, "distinct_nontrivial": ev, "exhaustive": True,
            "rule": "every dependency relation over 1..%d named targets (%s) x every non-empty set of requested targets (both request orders); each case "
                    "runs the real TaskRunner.run with a recording task; cases are distinct by construction; histories: every relation without self loops over 2..%d targets, "
                    "one run of a single requested target, every absent dependency added to the live project, a second run of every single target, judged for the new graph" % (plan[-1][0], "self-dependencies included up to 3 targets" + ("" if not plan[-1][1] else " and 4"), hn),
            "bound": "up to %d targets" % plan[-1][0], "violations": vio,
            "samples": [{"targets": 3, "deps": [[0, 1], [0, 2], [1, 2]], "requested": [0], "expect": "c, b, a executed in an order respecting dependencies"},
                        {"targets": 3, "deps": [[0, 1], [1, 2], [2, 0]], "requested": [1], "expect": "TaskError: dependency loop"}]}


def replay_bounded(inp):
    then = inp.get("then")
    r = run_case(inp["n"], [tuple(e) for e in inp["edges"]], inp["requested"], (tuple(then[0]), tuple(then[1])) if then else None)
    if r:
        return False, {"case": inp, "failed": r[:3]}
    return True, {"case": inp, "observed": "postcondition holds"}


ASSUMED = ["reference closure / cycle detection are computed independently by plain reachability"]
NOT_COVERED = ["dependency graphs with more targets than the bound (no unbounded proof)", "task execution itself, macro expansion, the build file parser"]
