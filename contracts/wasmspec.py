"""Reference semantics of the WebAssembly 1.0 numeric instructions (spec section 4.3 "Numerics") as
executable Python functions over Python ints / floats -- the oracle of the bounded end-to-end stand-in of
C22.  Integers are passed and returned in their SIGNED interpretation (what ppci's exports take and
return); TRAP is returned where the spec traps.  f32 values are Python floats that are exactly
representable in binary32; every f32 operation rounds its exact/double result once to binary32
(for + - * / sqrt the double result rounded to single equals the correctly rounded single result:
double has more than 2*24+2 significand bits)."""
import math
import struct

TRAP = "trap"


def sx(v, n):
    v &= (1 << n) - 1
    return v - (1 << n) if v >> (n - 1) else v


def ux(v, n):
    return v & ((1 << n) - 1)


def f32r(x):
    """round a double to binary32 (overflow -> inf as IEEE round-to-nearest prescribes)"""
    if x != x or x in (math.inf, -math.inf):
        return x
    try:
        return struct.unpack("<f", struct.pack("<f", x))[0]
    except OverflowError:
        return math.copysign(math.inf, x)


def _tdiv(a, b):
    q = abs(a) // abs(b)
    return q if (a < 0) == (b < 0) else -q


def ibin(op, n, a, b):
    ua, ub = ux(a, n), ux(b, n)
    if op == "add":
        return sx(a + b, n)
    if op == "sub":
        return sx(a - b, n)
    if op == "mul":
        return sx(a * b, n)
    if op == "div_s":
        if b == 0 or (a == -(1 << (n - 1)) and b == -1):
            return TRAP
        return sx(_tdiv(a, b), n)
    if op == "div_u":
        return TRAP if ub == 0 else sx(ua // ub, n)
    if op == "rem_s":
        if b == 0:
            return TRAP
        return sx(a - b * _tdiv(a, b), n)
    if op == "rem_u":
        return TRAP if ub == 0 else sx(ua % ub, n)
    if op == "and":
        return sx(ua & ub, n)
    if op == "or":
        return sx(ua | ub, n)
    if op == "xor":
        return sx(ua ^ ub, n)
    k = ub % n
    if op == "shl":
        return sx(ua << k, n)
    if op == "shr_u":
        return sx(ua >> k, n)
    if op == "shr_s":
        return sx(a >> k, n)
    if op == "rotl":
        return sx((ua << k) | (ua >> (n - k)), n) if k else sx(ua, n)
    if op == "rotr":
        return sx((ua >> k) | (ua << (n - k)), n) if k else sx(ua, n)
    raise KeyError(op)


def icmp(op, n, a, b):
    ua, ub = ux(a, n), ux(b, n)
    r = {"eq": a == b, "ne": a != b, "lt_s": a < b, "lt_u": ua < ub, "gt_s": a > b, "gt_u": ua > ub,
         "le_s": a <= b, "le_u": ua <= ub, "ge_s": a >= b, "ge_u": ua >= ub}[op]
    return 1 if r else 0


def iun(op, n, a):
    ua = ux(a, n)
    if op == "eqz":
        return 1 if ua == 0 else 0
    if op == "clz":
        return n - ua.bit_length()
    if op == "ctz":
        return n if ua == 0 else (ua & -ua).bit_length() - 1
    if op == "popcnt":
        return bin(ua).count("1")
    if op.startswith("extend") and op.endswith("_s"):
        return sx(ua, int(op[6:-2]))
    raise KeyError(op)


def _isnan(x):
    return x != x


def fbin(op, n, a, b):
    rnd = f32r if n == 32 else (lambda x: x)
    if op in ("add", "sub", "mul"):
        if _isnan(a) or _isnan(b):
            return math.nan
        try:
            r = {"add": a + b, "sub": a - b, "mul": a * b}[op] if not (math.isinf(a) or math.isinf(b)) else \
                {"add": lambda: a + b, "sub": lambda: a - b, "mul": lambda: a * b}[op]()
        except OverflowError:      # pragma: no cover  (Python float ops do not raise here)
            r = math.nan
        return rnd(r)
    if op == "div":
        if _isnan(a) or _isnan(b):
            return math.nan
        if b == 0:
            if a == 0 or _isnan(a):
                return math.nan
            return math.copysign(math.inf, a) * math.copysign(1.0, b)
        if math.isinf(a) and math.isinf(b):
            return math.nan
        return rnd(a / b)
    if op in ("min", "max"):
        if _isnan(a) or _isnan(b):
            return math.nan
        if a == b == 0:
            sa, sb = math.copysign(1.0, a), math.copysign(1.0, b)
            return (-0.0 if (sa < 0 or sb < 0) else 0.0) if op == "min" else (0.0 if (sa > 0 or sb > 0) else -0.0)
        return min(a, b) if op == "min" else max(a, b)
    if op == "copysign":
        return math.copysign(a, b)
    raise KeyError(op)


def fcmp(op, n, a, b):
    if _isnan(a) or _isnan(b):
        return 1 if op == "ne" else 0
    return 1 if {"eq": a == b, "ne": a != b, "lt": a < b, "gt": a > b, "le": a <= b, "ge": a >= b}[op] else 0


def _nearest(a):
    if _isnan(a) or math.isinf(a) or a == 0:
        return a
    r = float(round(a))          # Python round(): ties to even, as the spec's fnearest
    return math.copysign(r, a)   # keeps -0.0 for -0.5 < a < 0


def fun(op, n, a):
    rnd = f32r if n == 32 else (lambda x: x)
    if op == "neg":
        return -a
    if op == "abs":
        return math.fabs(a)
    if _isnan(a):
        return math.nan
    if op == "sqrt":
        if a < 0:
            return math.nan
        return rnd(math.sqrt(a)) if not math.isinf(a) else a
    if op in ("ceil", "floor", "trunc"):
        if math.isinf(a) or a == 0:
            return a
        r = float({"ceil": math.ceil, "floor": math.floor, "trunc": math.trunc}[op](a))
        return math.copysign(r, a)
    if op == "nearest":
        return _nearest(a)
    raise KeyError(op)


def trunc(n, signed, a):
    """iN.trunc_fM_s/u"""
    if _isnan(a) or math.isinf(a):
        return TRAP
    t = math.trunc(a)
    lo, hi = (-(1 << (n - 1)), (1 << (n - 1)) - 1) if signed else (0, (1 << n) - 1)
    if not lo <= t <= hi:
        return TRAP
    return sx(t, n)


def trunc_sat(n, signed, a):
    lo, hi = (-(1 << (n - 1)), (1 << (n - 1)) - 1) if signed else (0, (1 << n) - 1)
    if _isnan(a):
        return 0
    if math.isinf(a):
        return sx(lo if a < 0 else hi, n)
    return sx(min(max(math.trunc(a), lo), hi), n)


def convert(fn, n, signed, a):
    """fM.convert_iN_s/u: exact integer rounded once to the float format (ties to even)"""
    v = a if signed else ux(a, n)
    if fn == 64:
        return float(v)                 # int -> double: correctly rounded by CPython
    # int -> single: round the exact integer once (no double rounding)
    if v == 0:
        return 0.0
    s, m = (-1 if v < 0 else 1), abs(v)
    bl = m.bit_length()
    if bl > 24:
        sh = bl - 24
        q, r = m >> sh, m & ((1 << sh) - 1)
        half = 1 << (sh - 1)
        if r > half or (r == half and (q & 1)):
            q += 1
        m = q << sh
    return s * float(m)


def same(x, y):
    """result equality: NaN == NaN (payloads are not observable through ppci's interface), -0.0 != 0.0,
    an int result never equals a float result"""
    if isinstance(x, float) and isinstance(y, float):
        if x != x or y != y:
            return x != x and y != y
        return x == y and math.copysign(1.0, x) == math.copysign(1.0, y)
    if isinstance(x, bool) or isinstance(y, bool):
        return False
    return isinstance(x, int) and isinstance(y, int) and x == y


def bits2f(v, n):
    return struct.unpack("<f" if n == 32 else "<d", struct.pack("<I" if n == 32 else "<Q", ux(v, n)))[0]


def f2bits(x, n):
    return sx(struct.unpack("<I" if n == 32 else "<Q", struct.pack("<f" if n == 32 else "<d", x))[0], n)


IB = ["add", "sub", "mul", "div_s", "div_u", "rem_s", "rem_u", "and", "or", "xor", "shl", "shr_s", "shr_u", "rotl", "rotr"]
IC = ["eq", "ne", "lt_s", "lt_u", "gt_s", "gt_u", "le_s", "le_u", "ge_s", "ge_u"]
IU = ["eqz", "clz", "ctz", "popcnt"]
FB = ["add", "sub", "mul", "div", "min", "max", "copysign"]
FC = ["eq", "ne", "lt", "gt", "le", "ge"]
FU = ["neg", "abs", "sqrt", "ceil", "floor", "trunc", "nearest"]


def functions():
    """[(export name, wat text of one single-instruction function, reference function, parameter types, result type)]"""
    out = []

    def add(name, params, result, body, spec):
        out.append((name, "(func (export \"%s\") %s (result %s) %s)" % (name, " ".join("(param %s)" % p for p in params), result, body),
                    spec, params, result))

    g0, g01 = "(local.get 0)", "(local.get 0) (local.get 1)"
    for n in (32, 64):
        t, f = "i%d" % n, "f%d" % n
        for op in IB:
            add("%s_%s" % (t, op), [t, t], t, "%s (%s.%s)" % (g01, t, op), (lambda op, n: lambda a, b: ibin(op, n, a, b))(op, n))
        for op in IC:
            add("%s_%s" % (t, op), [t, t], "i32", "%s (%s.%s)" % (g01, t, op), (lambda op, n: lambda a, b: icmp(op, n, a, b))(op, n))
        for op in IU:
            add("%s_%s" % (t, op), [t], t if op != "eqz" else "i32", "%s (%s.%s)" % (g0, t, op), (lambda op, n: lambda a: iun(op, n, a))(op, n))
        for op in FB:
            add("%s_%s" % (f, op), [f, f], f, "%s (%s.%s)" % (g01, f, op), (lambda op, n: lambda a, b: fbin(op, n, a, b))(op, n))
        for op in FC:
            add("%s_%s" % (f, op), [f, f], "i32", "%s (%s.%s)" % (g01, f, op), (lambda op, n: lambda a, b: fcmp(op, n, a, b))(op, n))
        for op in FU:
            add("%s_%s" % (f, op), [f], f, "%s (%s.%s)" % (g0, f, op), (lambda op, n: lambda a: fun(op, n, a))(op, n))
        for fn in (32, 64):
            for s in "su":
                add("i%d_trunc_f%d_%s" % (n, fn, s), ["f%d" % fn], t, "%s (i%d.trunc_f%d_%s)" % (g0, n, fn, s), (lambda n, s: lambda a: trunc(n, s == "s", a))(n, s))
                add("i%d_trunc_sat_f%d_%s" % (n, fn, s), ["f%d" % fn], t, "%s (i%d.trunc_sat_f%d_%s)" % (g0, n, fn, s),
                    (lambda n, s: lambda a: trunc_sat(n, s == "s", a))(n, s))
                add("f%d_convert_i%d_%s" % (fn, n, s), [t], "f%d" % fn, "%s (f%d.convert_i%d_%s)" % (g0, fn, n, s),
                    (lambda fn, n, s: lambda a: convert(fn, n, s == "s", a))(fn, n, s))
    for op in ("extend8_s", "extend16_s"):
        add("i32_" + op, ["i32"], "i32", "%s (i32.%s)" % (g0, op), (lambda op: lambda a: iun(op, 32, a))(op))
    for op in ("extend8_s", "extend16_s", "extend32_s"):
        add("i64_" + op, ["i64"], "i64", "%s (i64.%s)" % (g0, op), (lambda op: lambda a: iun(op, 64, a))(op))
    add("i32_wrap_i64", ["i64"], "i32", g0 + " (i32.wrap_i64)", lambda a: sx(a, 32))
    add("i64_extend_i32_s", ["i32"], "i64", g0 + " (i64.extend_i32_s)", lambda a: a)
    add("i64_extend_i32_u", ["i32"], "i64", g0 + " (i64.extend_i32_u)", lambda a: ux(a, 32))
    add("f32_demote_f64", ["f64"], "f32", g0 + " (f32.demote_f64)", lambda a: f32r(a))
    add("f64_promote_f32", ["f32"], "f64", g0 + " (f64.promote_f32)", lambda a: a)
    add("f32_reinterpret_i32", ["i32"], "f32", g0 + " (f32.reinterpret_i32)", lambda a: bits2f(a, 32))
    add("f64_reinterpret_i64", ["i64"], "f64", g0 + " (f64.reinterpret_i64)", lambda a: bits2f(a, 64))
    add("i32_reinterpret_f32", ["f32"], "i32", g0 + " (i32.reinterpret_f32)", lambda a: f2bits(a, 32))
    add("i64_reinterpret_f64", ["f64"], "i64", g0 + " (i64.reinterpret_f64)", lambda a: f2bits(a, 64))
    # i32.eqz directly on a comparison (a front end may fold it into the inverse comparison: wrong for ordered float
    # comparisons with a NaN operand) and a comparison result used as a number
    for n in (32, 64):
        f = "f%d" % n
        for op in FC:
            add("%s_%s_eqz" % (f, op), [f, f], "i32", "%s (%s.%s) (i32.eqz)" % (g01, f, op), (lambda op, n: lambda a, b: 1 - fcmp(op, n, a, b))(op, n))
        t = "i%d" % n
        for op in ("lt_s", "ge_u", "eq"):
            add("%s_%s_eqz" % (t, op), [t, t], "i32", "%s (%s.%s) (i32.eqz)" % (g01, t, op), (lambda op, n: lambda a, b: 1 - icmp(op, n, a, b))(op, n))
    add("f64_lt_plus", ["f64", "f64"], "i32", "(local.get 0) (local.get 1) (f64.lt) (local.get 1) (local.get 0) (f64.ge) (i32.add)", lambda a, b: fcmp("lt", 64, a, b) + fcmp("ge", 64, b, a))
    add("f32_if_not_le", ["f32", "f32"], "i32", "(local.get 0) (local.get 1) (f32.le) (i32.eqz) (if (result i32) (then (i32.const 7)) (else (i32.const 9)))",
        lambda a, b: 7 if not fcmp("le", 32, a, b) else 9)
    # the same operators reached through other instruction shapes: constants, select, local.tee, a compared branch
    add("i32_select_lt_u", ["i32", "i32"], "i32", "(local.get 0) (local.get 1) (local.get 0) (local.get 1) (i32.lt_u) (select)",
        lambda a, b: a if ux(a, 32) < ux(b, 32) else b)
    add("i64_if_ge_s", ["i64", "i64"], "i64", "(local.get 0) (local.get 1) (i64.ge_s) (if (result i64) (then (local.get 0)) (else (local.get 1)))",
        lambda a, b: a if a >= b else b)
    add("i32_const_shr_s", ["i32"], "i32", "(local.get 0) (i32.const 35) (i32.shr_s)", lambda a: ibin("shr_s", 32, a, 35))
    add("i64_const_sub", ["i64"], "i64", "(i64.const -9223372036854775808) (local.get 0) (i64.sub)", lambda a: ibin("sub", 64, -(1 << 63), a))
    add("f64_if_lt", ["f64", "f64"], "i32", "(local.get 0) (local.get 1) (f64.lt) (if (result i32) (then (i32.const 1)) (else (i32.const 0)))",
        lambda a, b: fcmp("lt", 64, a, b))
    return out


def ivals(n, thorough=False):
    m = 1 << (n - 1)
    v = [0, 1, 2, 3, 7, -1, -2, -7, n - 1, n, n + 1, 2 * n + 3, 255, 256, -128, -129, 32767, 32768, 65535, m - 1, -m, -m + 1, m >> 1,
         0x55555555 & (m - 1), -(0x12345678 % m)]
    if thorough:
        v += [m - 2, -m + 2, 127, 128, -32768, -32769, 65536, (m >> 1) - 1, -(m >> 1), 0x0F0F0F0F0F0F0F0F & (m - 1), -(0x0123456789ABCDEF % m), 5, -5, 16, -16, 31, 33, 63, 65]
        if n == 64:
            v += [1 << 31, (1 << 31) - 1, -(1 << 31), -(1 << 31) - 1, 1 << 32, (1 << 32) - 1, (1 << 53) + 1, -(1 << 53) - 1, (1 << 24) + 1]
    return sorted(set(v))


def fvals(n, thorough=False):
    v = [0.0, -0.0, 1.0, -1.0, 0.5, -0.5, 1.5, -1.5, 2.5, -2.5, 3.75, 1e10, -1e10, 2147483648.0, -2147483648.0, 2147483647.0, -2147483904.0,
         4294967296.0, 4294967295.0, 9.223372036854775807e18, -9.223372036854775808e18, 1.8446744073709552e19, 1e300, -1e300, 1e-300, 5e-324,
         math.inf, -math.inf, math.nan, 0.1, 16777217.0, 0.49999999999999994, 4503599627370497.5]
    if thorough:
        v += [-3.5, 3.5, 4.5, -0.75, 0.75, 7.0, -7.0, 16777216.0, 16777215.0, -16777216.0, 9007199254740993.0, 9007199254740992.0, 4294967295.5, -0.9, -1.0000000000000002,
              2147483647.5, -2147483648.5, -2147483649.0, 1.7976931348623157e308, -1.7976931348623157e308, 2.2250738585072014e-308, 1e-45, 3.4028235677973366e38, 1e39, -1e39,
              123456.789, -123456.789, 0.3, 1.0000001, 255.5, -255.5]
    if n == 32:
        v = [f32r(x) for x in v if x == x] + [math.nan, 3.4028234663852886e38, 1.401298464324817e-45, -3.4028234663852886e38, 16777216.0, 8388607.5]
    seen, out = set(), []
    for x in v:
        k = struct.pack("<d", x) if x == x else b"nan"
        if k not in seen:
            seen.add(k)
            out.append(x)
    return out
