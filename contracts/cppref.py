"""Reference macro expander for the bounded stand-in of C26: C11 6.10.3 (argument substitution, # and ##
with placemarkers, rescanning) with per-token hide sets (Prosser's algorithm, the one the C committee
used to word 6.10.3.4), over the token language the corpus uses: identifiers, pp-numbers, string
literals and punctuators; directives #define (object-like and function-like, no variadics) and #undef.
Cross-validated during development against `cpp -P` (gcc) on the fixed corpus and on 5000 generated
translation units (identical token sequences on every unit gcc accepts)."""
import re
TOK = re.compile(r'\s*("([^"\\]|\\.)*"|\'([^\'\\]|\\.)*\'|[A-Za-z_][A-Za-z_0-9]*|\.?[0-9]([eEpP][+-]|[A-Za-z_0-9.])*|##|#|<<=|>>=|<<|>>|<=|>=|==|!=|&&|\|\||\+\+|--|->|\+=|-=|\*=|/=|%=|&=|\|=|\^=|\.\.\.|[-+*/%&|^~!<>=?:;,.(){}\[\]])')

class T:
    __slots__ = ("v", "hs", "sp")
    def __init__(self, v, hs=frozenset(), sp=False):
        self.v, self.hs, self.sp = v, hs, sp
    def __repr__(self): return self.v

def lex(line):
    out, pos = [], 0
    line = line.rstrip()
    while pos < len(line):
        m = TOK.match(line, pos)
        if not m:
            if line[pos:].strip() == "": break
            raise ValueError("cannot lex %r" % line[pos:])
        out.append(T(m.group(1), frozenset(), sp=(m.start(1) > pos) or (pos == 0 and False)))
        pos = m.end()
    return out

def is_ident(v): return re.match(r'[A-Za-z_]\w*$', v) is not None

class Macro:
    def __init__(self, name, params, body, variadic=False):
        self.name, self.params, self.body = name, params, body   # params None => object-like

def stringify(toks):
    s = ""
    for i, t in enumerate(toks):
        if i and t.sp: s += " "
        v = t.v
        if v.startswith('"') or v.startswith("'"):
            v = v.replace("\\", "\\\\").replace('"', '\\"')
        s += v
    return '"' + s + '"'

def paste(a, b):
    v = a.v + b.v
    ts = lex(v)
    if len(ts) != 1:
        raise ValueError("invalid paste %r" % v)
    return T(v, a.hs & b.hs, a.sp)

COUNTER = [0]           # value of the predefined macro __COUNTER__ (reset per translation unit)


def expand(ts, macros):
    """ts: list of T. returns fully expanded list"""
    out = []
    ts = list(ts)
    while ts:
        t = ts.pop(0)
        if t.v == "__COUNTER__" and "__COUNTER__" not in t.hs:
            out.append(T(str(COUNTER[0]), t.hs, t.sp))
            COUNTER[0] += 1
            continue
        m = macros.get(t.v) if is_ident(t.v) else None
        if m is None or t.v in t.hs:
            out.append(t); continue
        if m.params is None:
            rep = subst(m, [], t.hs | {t.v}, macros)
            if rep: rep[0].sp = t.sp
            ts = rep + ts
            continue
        # function-like: need '('
        if not ts or ts[0].v != "(":
            out.append(t); continue
        # collect args
        depth, i, args, cur = 0, 1, [], []
        while True:
            if i >= len(ts): raise ValueError("unterminated macro call")
            x = ts[i]
            if x.v == "(": depth += 1; cur.append(x)
            elif x.v == ")":
                if depth == 0: break
                depth -= 1; cur.append(x)
            elif x.v == "," and depth == 0: args.append(cur); cur = []
            else: cur.append(x)
            i += 1
        rparen = ts[i]
        args.append(cur)
        if len(m.params) == 0 and len(args) == 1 and not args[0]: args = []
        if len(args) != len(m.params): raise ValueError("arity")
        ts = ts[i+1:]
        rep = subst(m, args, (t.hs & rparen.hs) | {t.v}, macros)
        if rep: rep[0].sp = t.sp
        ts = rep + ts
    return out

def subst(m, args, hs, macros):
    body = m.body
    res = []
    i = 0
    params = m.params or []
    expanded = {}
    def arg_of(t):
        return args[params.index(t.v)] if t.v in params else None
    while i < len(body):
        t = body[i]
        if t.v == "#" and m.params is not None and i + 1 < len(body) and body[i+1].v in params:
            res.append(T(stringify(arg_of(body[i+1])), frozenset(), t.sp)); i += 2; continue
        if t.v == "##" and res and i + 1 < len(body):
            nxt = body[i+1]
            a = arg_of(nxt)
            if a is not None:
                rhs = [T(x.v, x.hs, x.sp) for x in a]
            else:
                rhs = [T(nxt.v, nxt.hs, nxt.sp)]
            if rhs:
                lhs = res.pop()
                if lhs.v == "\0placemarker":
                    res.extend(rhs)
                else:
                    res.append(paste(lhs, rhs[0])); res.extend(rhs[1:])
            i += 2; continue
        a = arg_of(t)
        if a is not None:
            if i + 1 < len(body) and body[i+1].v == "##":
                cp = [T(x.v, x.hs, x.sp) for x in a]
                if not cp: cp = [T("\0placemarker")]
                if cp: cp[0].sp = t.sp
                res.extend(cp)
            else:
                k = params.index(t.v)
                if k not in expanded:                 # an argument is completely macro replaced once (6.10.3.1)
                    expanded[k] = expand([T(x.v, x.hs, x.sp) for x in a], macros)
                ex = [T(x.v, x.hs, x.sp) for x in expanded[k]]
                if ex: ex[0].sp = t.sp
                res.extend(ex)
            i += 1; continue
        res.append(T(t.v, t.hs, t.sp)); i += 1
    res = [x for x in res if x.v != "\0placemarker"]
    for x in res: x.hs = x.hs | hs
    return res

def _eval_if(text, macros):
    """value of a #if / #elif controlling expression (the subset the corpus uses: integer literals, macro names,
    defined X / defined(X), ! && || == != < > <= >= + - * and parentheses; remaining identifiers are 0)"""
    ts = lex(text)
    out, i = [], 0
    while i < len(ts):                       # defined is evaluated before macro replacement (6.10.1p4)
        if ts[i].v == "defined":
            if ts[i + 1].v == "(":
                name, i = ts[i + 2].v, i + 4
            else:
                name, i = ts[i + 1].v, i + 2
            out.append(T("1" if name in macros else "0"))
        else:
            out.append(ts[i])
            i += 1
    ex = expand(out, macros)
    toks = []
    for t in ex:
        v = t.v
        if is_ident(v):
            toks.append(0)
        elif re.match(r"[0-9]+[uUlL]*$", v):
            toks.append(int(re.match(r"[0-9]+", v).group(0)))
        elif v in ("(", ")", "==", "!=", "<", ">", "<=", ">=", "+", "-", "*", "&&", "||", "!"):
            toks.append(v)
        else:
            raise ValueError("unsupported token in #if: %r" % v)
    pos = [0]
    PREC = {"||": 1, "&&": 2, "==": 3, "!=": 3, "<": 4, ">": 4, "<=": 4, ">=": 4, "+": 5, "-": 5, "*": 6}

    def peek():
        return toks[pos[0]] if pos[0] < len(toks) else None

    def take():
        pos[0] += 1
        return toks[pos[0] - 1]

    def unary():
        t = take()
        if t == "!":
            return int(not unary())
        if t == "-":
            return -unary()
        if t == "+":
            return unary()
        if t == "(":
            v = binary(1)
            if take() != ")":
                raise ValueError("expected )")
            return v
        if isinstance(t, int):
            return t
        raise ValueError("unexpected %r in #if" % (t,))

    def binary(minp):
        lhs = unary()
        while isinstance(peek(), str) and peek() in PREC and PREC[peek()] >= minp:
            op = take()
            rhs = binary(PREC[op] + 1)
            lhs = {"||": lambda: int(bool(lhs) or bool(rhs)), "&&": lambda: int(bool(lhs) and bool(rhs)), "==": lambda: int(lhs == rhs), "!=": lambda: int(lhs != rhs),
                   "<": lambda: int(lhs < rhs), ">": lambda: int(lhs > rhs), "<=": lambda: int(lhs <= rhs), ">=": lambda: int(lhs >= rhs),
                   "+": lambda: lhs + rhs, "-": lambda: lhs - rhs, "*": lambda: lhs * rhs}[op]()
        return lhs
    v = binary(1)
    if pos[0] != len(toks):
        raise ValueError("trailing tokens in #if")
    return int(bool(v))


def preprocess(src):
    COUNTER[0] = 0
    macros, out = {}, []
    pending = []
    stack = []            # per open #if: [this group active, some group already taken, enclosing active]

    def active():
        return all(f[0] for f in stack)

    def flush():
        if pending:
            out.extend(expand(list(pending), macros))
            del pending[:]
    for line in src.split("\n"):
        s = line.strip()
        if s.startswith("#"):
            flush()
            d = s[1:].strip()
            word = re.match(r"[a-z]*", d).group(0)
            rest = d[len(word):].strip()
            if word in ("ifdef", "ifndef", "if"):
                if not active():
                    stack.append([False, True, False])
                else:
                    c = (rest in macros) if word == "ifdef" else (rest not in macros) if word == "ifndef" else bool(_eval_if(rest, macros))
                    stack.append([c, c, True])
            elif word == "elif":
                f = stack[-1]
                if f[2] and not f[1]:
                    f[0] = bool(_eval_if(rest, macros))
                    f[1] = f[0]
                else:
                    f[0] = False
            elif word == "else":
                f = stack[-1]
                f[0] = f[2] and not f[1]
                f[1] = True
            elif word == "endif":
                stack.pop()
            elif not active():
                pass
            elif word == "define":
                m = re.match(r"([A-Za-z_]\w*)", rest)
                name = m.group(1)
                rest2 = rest[m.end():]
                params = None
                if rest2.startswith("("):
                    close = rest2.index(")")
                    plist = rest2[1:close]
                    params = [p.strip() for p in plist.split(",")] if plist.strip() else []
                    body = rest2[close + 1:]
                else:
                    body = rest2
                b = lex(body)
                if b:
                    b[0].sp = False
                macros[name] = Macro(name, params, b)
            elif word == "undef":
                macros.pop(rest.split()[0], None)
            else:
                raise ValueError("unsupported directive %r" % word)
        elif active():
            ts = lex(line)
            if ts and pending:
                ts[0].sp = True          # a new-line inside a macro invocation is white space
            pending.extend(ts)
    flush()
    if stack:
        raise ValueError("unterminated conditional")
    return [t.v for t in out]
