"""C11, linker level: ObjectFile.get_symbol_id_value, Linker.get_symbol_value and
Linker._do_relocation under contract.

_do_relocation is verified *modularly*: the relocation class it looks up is replaced by a
specification stub whose apply() is an uninterpreted function of its arguments (the stub records
the arguments it was called with and returns `size` fresh bytes).  The per-class meaning of apply
is the subject of the row contracts in c11.py; here the obligation is the property's linker-level
sentence: apply is called with S = symbol.value + address of the symbol's section, P = address of
the relocated section + relocation.offset, the addend of the entry and exactly the `size` bytes at
the offset, and its result replaces exactly those bytes (frame: every other byte of the section
unchanged, for section data of any length).  The call under contract is the SECOND relocation the linker applies
(an entry of the same type with another offset and addend in another section goes first), so state kept between
entries is covered."""
import types
import z3
from pyvc.engine import Contract, make_value
from pyvc.spec import and_, or_, not_, tier
from pyvc.sym import SymInt, SymSeq, ctx, as_z3_int, mk, mkb
from pyvc import sym as S

MODS = ["ppci.binutils.linker", "ppci.binutils.objectfile"]


def _stub_reloc(size, rec):
    class SpecReloc:
        name = "spec_reloc"

        def __init__(self, symbol_name, offset=0, addend=0):
            self.symbol_name, self.offset, self.addend = symbol_name, offset, addend
            rec["init"] = {"offset": offset, "addend": addend}

        @classmethod
        def size(cls):
            return size

        def apply(self, sym_value, data, reloc_value):
            rec.setdefault("calls", []).append({"S": sym_value, "data": SymSeq(data.e, data.kind, data.elem_bounds) if isinstance(data, SymSeq) else bytes(data),
                                               "P": reloc_value, "A": self.addend})
            if isinstance(data, SymSeq):
                c = ctx()
                items = []
                for i in range(size):
                    v = z3.Int(c.fresh_name("patched[%d]" % i))
                    c.assume(z3.And(v >= 0, v < 256))
                    items.append(z3.Unit(v))
                e = items[0] if size == 1 else z3.Concat(*items)
                r = SymSeq(e, "bytearray", (0, 256))
                rec["ret"] = r
                return r
            r = bytearray((b ^ 0x5A) for b in data)      # concrete replay: a recognisable, non-identity patch
            rec["ret"] = r
            return r
    return SpecReloc


def _build(env, secdata, a_code, a_data, symval, offset, addend, same_section):
    from ppci.binutils.linker import Linker
    from ppci.binutils.objectfile import ObjectFile, RelocationEntry
    rec = {}
    cls = _stub_reloc(env["size"], rec)
    arch = types.SimpleNamespace(isa=types.SimpleNamespace(relocation_map={"spec_reloc": cls}), name="spec")
    lk = Linker(arch)
    lk.dst = ObjectFile(arch)
    code = lk.dst.get_section("code", create=True)
    code.address = a_code
    code.data = secdata
    if same_section:
        symsec = "code"
        a_sym = a_code
    else:
        d = lk.dst.get_section("data", create=True)
        d.address = a_data
        symsec = "data"
        a_sym = a_data
    lk.dst.add_symbol(7, "target", "global", symval, symsec, "func", 0)
    lk.dst.add_symbol(8, "other", "global", 1234, "code", "func", 0)
    rel = RelocationEntry("spec_reloc", 7, "code", offset, addend)
    env.update({"lk": lk, "rel": rel, "rec": rec, "code": code, "a_sym": a_sym})
    return lk, rel


def _mk_doreloc(c, g):
    secdata = make_value("bytearray", "secdata", c)
    a_code = make_value("int", "a_code", c)
    a_data = make_value("int", "a_data", c)
    symval = make_value("int", "symval", c)
    offset = make_value("int", "offset", c)
    addend = make_value("int", "addend", c)
    env = {"secdata": secdata, "a_code": a_code, "a_data": a_data, "symval": symval, "offset": offset, "addend": addend}
    return {"args": [], "env": env, "inputs": dict(env)}


def _call_doreloc(fn, env, args, kwargs):
    import copy
    sd = env.secdata
    if isinstance(sd, SymSeq):
        sd = SymSeq(sd.e, "bytearray", sd.elem_bounds)
    else:
        sd = bytearray(sd)
    lk, rel = _build(env, sd, env.a_code, env.a_data, env.symval, env.offset, env.addend, env.same_section)
    # history: the same linker has already applied another entry of the same relocation type (other section, other
    # offset and addend) -- nothing of that earlier entry may leak into this one
    from ppci.binutils.objectfile import RelocationEntry
    warm = lk.dst.get_section("warm", create=True)
    warm.address = 0x7000
    warm.data = bytearray(range(200, 200 + env.size + 3))
    fn(lk, RelocationEntry("spec_reloc", 8, "warm", 2, 99))
    env.rec.pop("calls", None)
    fn(lk, rel)
    return env.code.data


def _seq(x):
    return x


def _post_doreloc(e):
    rec = e.rec
    n = e.size
    old = e.old.secdata
    out = [("apply called exactly once", len(rec.get("calls", [])) == 1)]
    if len(rec.get("calls", [])) != 1:
        return out
    call = rec["calls"][0]
    new = e.result
    out += [
        ("S passed to apply == symbol.value + address of the symbol's section", call["S"] == e.symval + e.a_sym),
        ("P passed to apply == section.address + relocation.offset", call["P"] == e.a_code + e.offset),
        ("addend passed to the relocation == entry.addend", call["A"] == e.addend),
        ("bytes passed to apply == section.data[offset:offset+size]", _seq(call["data"]) == _seq(old)[e.offset:e.offset + n]),
        ("section length unchanged", len_(new) == len_(old)),
        ("section.data' == data[:offset] ++ patched bytes ++ data[offset+size:]  (field replaced, every other byte unchanged)",
         _seq(new) == _seq(old)[:e.offset] + _seq(rec["ret"]) + _seq(old)[e.offset + n:]),
    ]
    return out


def len_(x):
    return x._len() if isinstance(x, SymSeq) else len(x)


def _samples_doreloc(g, rnd):
    out = []
    for _ in range(12):
        ln = rnd.choice([g["size"], g["size"] + 1, 16, 40])
        off = rnd.randrange(0, ln - g["size"] + 1)
        out.append({"secdata": {"__bytearray__": [rnd.randrange(256) for _ in range(ln)]}, "a_code": rnd.choice([0, 0x1000, 0x8000000]),
                    "a_data": rnd.choice([0, 0x2000, 0x20000000]), "symval": rnd.choice([0, 4, 100, 0xFFFF]), "offset": off,
                    "addend": rnd.choice([0, -4, 8])})
    return out


CONTRACTS = [Contract(
    "ppci.binutils.linker:Linker._do_relocation", "C11", label="Linker._do_relocation (relocation class abstracted by its contract)",
    grid=[{"size": n, "same_section": ss} for n in ((2, 4) if tier() == "quick" else (1, 2, 3, 4, 8)) for ss in (False, True)],
    modules=MODS, make=_mk_doreloc, call=_call_doreloc, sample_inputs=_samples_doreloc,
    replay_args=lambda g, v: {"args": [], "env": dict(v)},
    requires=lambda e: [e.offset >= 0, e.offset + e.size <= len_(e.secdata)],
    ensures=_post_doreloc,
)]


# ---- symbol value lookup ------------------------------------------------------------------------
def _mk_symval(c, g):
    env = {k: make_value("int", k, c) for k in ("v1", "a1", "v2", "a2")}
    return {"args": [], "env": env, "inputs": dict(env)}


def _call_symval(fn, env, args, kwargs):
    """history: lookup; the layout changes (what relaxation does: symbol values and section
    addresses move); lookup again"""
    lk, rel = _build(env, bytearray(8), env.a1 if env.kind == "same" else 0, env.a1, env.v1 if env.kind != "absolute" else env.v1, 0, 0, env.kind == "same")
    sym = lk.dst.symbols_by_id[7]
    if env.kind == "absolute":
        sym.section = None
    r1 = fn(lk, 7)
    sym.value = env.v2
    if sym.section is not None:
        lk.dst.get_section(sym.section).address = env.a2
    r2 = fn(lk, 7)
    env["r1"], env["r2"] = r1, r2
    return r2


def _post_symval(e):
    if e.kind == "absolute":
        return [("first lookup == symbol.value (absolute symbol)", e.r1 == e.v1),
                ("lookup after the symbol moved == the new value", e.r2 == e.v2)]
    return [("first lookup == symbol.value + section.address", e.r1 == e.v1 + e.a1),
            ("lookup after the layout changed == new value + new section address (no stale value)", e.r2 == e.v2 + e.a2)]


_INT4 = lambda g, rnd: [{"v1": rnd.randrange(0, 1000), "a1": rnd.choice([0, 0x1000]), "v2": rnd.randrange(0, 1000), "a2": rnd.choice([0x2000, 0x1000])}
                        for _ in range(6)]
for _t in ("ppci.binutils.linker:Linker.get_symbol_value",):
    CONTRACTS.append(Contract(
        _t, "C11", label="Linker.get_symbol_value (history: lookup, layout change, lookup)",
        grid=[{"kind": k, "size": 4} for k in ("other", "same", "absolute")], modules=MODS, make=_mk_symval, call=_call_symval,
        sample_inputs=_INT4, replay_args=lambda g, v: {"args": [], "env": dict(v)}, ensures=_post_symval))


def _call_idval(fn, env, args, kwargs):
    lk, rel = _build(env, bytearray(8), 0, env.a1, env.v1, 0, 0, False)
    sym = lk.dst.symbols_by_id[7]
    if env.kind == "absolute":
        sym.section = None
    if env.kind == "undefined":
        sym.value = None
    return fn(lk.dst, 7)


CONTRACTS.append(Contract(
    "ppci.binutils.objectfile:ObjectFile.get_symbol_id_value", "C11",
    grid=[{"kind": k, "size": 4} for k in ("other", "absolute", "undefined")], modules=MODS,
    make=lambda c, g: (lambda env: {"args": [], "env": env, "inputs": dict(env)})({k: make_value("int", k, c) for k in ("v1", "a1")}),
    call=_call_idval, sample_inputs=lambda g, rnd: [{"v1": 5, "a1": 0x100}, {"v1": 0, "a1": 0}],
    replay_args=lambda g, v: {"args": [], "env": dict(v)},
    raises=[(ValueError, lambda e: e.kind == "undefined")],
    ensures=lambda e: [("value + section address (absolute symbol: value)", e.result == (e.v1 if e.kind == "absolute" else e.v1 + e.a1))]))
