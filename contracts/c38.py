"""C38 -- constant folding (ppci/opt/constantfolding.py) against IR semantics.

IR semantics (as stated by C24/C38): for an integer type with n bits, + - * wrap
modulo 2^n into the type's range; % is the remainder of division truncating
toward zero; << and >> are defined for 0 <= b < n (>> arithmetic for signed,
logical for unsigned operands); integer casts wrap into the target type;
casts to pointer keep the value.
Grid: 6 foldable operators x 8 integer types; casts 8x8 + pointer.
"""
import z3
from pyvc.engine import Contract, Loop, make_value
from pyvc.spec import and_, or_, not_, implies, ite, trem, pick, tier
from pyvc.sym import Undecided

M = "ppci.opt.constantfolding"


def _ir():
    from ppci import ir
    return ir


def int_types():
    ir = _ir()
    return [ir.i8, ir.i16, ir.i32, ir.i64, ir.u8, ir.u16, ir.u32, ir.u64]


def lo_hi(ty):
    n = ty.bits
    return (-(1 << (n - 1)), 1 << (n - 1)) if ty.signed else (0, 1 << n)


def wrap(ty, x):
    n = ty.bits
    u = x % (1 << n)
    if ty.signed:
        return ite(u >= (1 << (n - 1)), lambda: u - (1 << n), lambda: u)
    return u


def in_range(ty, x):
    lo, hi = lo_hi(ty)
    return and_(x >= lo, x < hi)


def ir_binop(op, ty, a, b):
    """IR run-time semantics of `a op b` in integer type ty (operands in range)."""
    if op == "+":
        return wrap(ty, a + b)
    if op == "-":
        return wrap(ty, a - b)
    if op == "*":
        return wrap(ty, a * b)
    if op == "%":
        return wrap(ty, trem(a, b))
    if op in ("<<", ">>"):
        k = pick(b, ty.bits)
        if not isinstance(k, int):
            raise Undecided("shift count not concretised")
        return wrap(ty, a * (1 << k)) if op == "<<" else wrap(ty, a // (1 << k))
    raise Undecided("no IR specification for foldable operator %r" % (op,))


def defined(op, ty, a, b):
    if op == "%":
        return [b != 0]
    if op in ("<<", ">>"):
        return [b >= 0, b < ty.bits]
    return []


OPS = ["+", "-", "*", "%", "<<", ">>"]
TYPES = int_types()
CONTRACTS = []

# ---- correct / cast ---------------------------------------------------------
CONTRACTS.append(Contract(
    M + ":correct", "C38", params={"value": "int", "ty": "const"},
    grid=[{"ty": t} for t in TYPES],
    ensures=lambda e: [("result == wrap(ty, value)", e.result == wrap(e.ty, e.value)),
                       ("result in range(ty)", in_range(e.ty, e.result))],
))
CONTRACTS.append(Contract(
    M + ":cast", "C38", params={"value": "int", "ty": "const"}, label=M + ":cast(int types)",
    grid=[{"ty": t} for t in TYPES], modules=["ppci.ir"],
    ensures=lambda e: [("result == wrap(ty, value)", e.result == wrap(e.ty, e.value)),
                       ("result in range(ty)", in_range(e.ty, e.result))],
))
CONTRACTS.append(Contract(
    M + ":cast", "C38", params={"value": "int", "ty": "const"}, label=M + ":cast(ptr)",
    grid=[{"ty": _ir().ptr}], modules=["ppci.ir"],
    ensures=lambda e: [("pointer cast keeps the value", e.result == e.value)],
))


# ---- the operator table -----------------------------------------------------
def _ops_call(fn, env, args, kwargs):
    cf = fn()
    keys = sorted(cf.ops)
    if keys != sorted(OPS):
        raise Undecided("contract stale: foldable operators are %r, specification covers %r" % (keys, sorted(OPS)))
    return cf.ops[env.op](env.ty, env.a, env.b)


def _ab_params(ty):
    lo, hi = lo_hi(ty)
    return {"a": ("range", lo, hi), "b": ("range", lo, hi)}


def _make_ab(c, g):
    ty = g["ty"]
    lo, hi = lo_hi(ty)
    a = make_value(("range", lo, hi), "a", c)
    b = make_value(("range", lo, hi), "b", c)
    return a, b


def _mk_ops(c, g):
    a, b = _make_ab(c, g)
    return {"args": [], "env": {"a": a, "b": b}, "inputs": {"a": a, "b": b}}


def _samples_ab(g, rnd):
    lo, hi = lo_hi(g["ty"])
    n = g["ty"].bits
    pts = [lo, hi - 1, 0, 1, -1, 2, -2, 7, -7, 3, hi // 2, lo // 2, n - 1, n, 5]
    out = []
    for _ in range(40):
        a, b = rnd.choice(pts + [rnd.randrange(lo, hi)]), rnd.choice(pts + [rnd.randrange(lo, hi)])
        if lo <= a < hi and lo <= b < hi:
            out.append({"a": a, "b": b})
    return out


CONTRACTS.append(Contract(
    M + ":ConstantFolder", "C38", label=M + ":ConstantFolder.ops[op]",
    grid=[{"op": op, "ty": t} for op in OPS for t in TYPES],
    make=_mk_ops, replay_args=lambda g, v: {"args": [], "env": {"a": v["a"], "b": v["b"]}},
    sample_inputs=_samples_ab,
    requires=lambda e: defined(e.op, e.ty, e.a, e.b),
    call=_ops_call,
    ensures=lambda e: [("folded value == IR run-time value", e.result == ir_binop(e.op, e.ty, e.a, e.b)),
                       ("folded value in range(ty)", in_range(e.ty, e.result))],
))


# ---- eval_const: inductive step (children abstracted by their contract: a Const in range)
def _build_binop(g, a, b):
    ir = _ir()
    ty = g["ty"]
    ca, cb = ir.Const(a, "a", ty), ir.Const(b, "b", ty)
    node = ir.Binop(ca, g["op"], cb, "x", ty)
    return {"args": [node], "env": {"a": a, "b": b, "node": node}}


def _mk_eval_binop(c, g):
    a, b = _make_ab(c, g)
    d = _build_binop(g, a, b)
    d["inputs"] = {"a": a, "b": b}
    return d


def _eval_call(fn, env, args, kwargs):
    from ppci.opt.constantfolding import ConstantFolder
    cf = ConstantFolder()
    return cf.eval_const(*args)


def _is_const_in(e, ty):
    ir = _ir()
    return isinstance(e.result, ir.Const) and e.result.ty is ty


CONTRACTS.append(Contract(
    M + ":ConstantFolder.eval_const", "C38", label=M + ":ConstantFolder.eval_const(Binop)",
    grid=[{"op": op, "ty": t} for op in OPS for t in TYPES], modules=["ppci.ir"],
    make=_mk_eval_binop, replay_args=lambda g, v: _build_binop(g, v["a"], v["b"]),
    sample_inputs=_samples_ab,
    requires=lambda e: defined(e.op, e.ty, e.a, e.b),
    call=_eval_call,
    ensures=lambda e: [("result is a Const of the node's type", _is_const_in(e, e.ty)),
                       ("value == IR run-time value", e.result.value == ir_binop(e.op, e.ty, e.a, e.b)),
                       ("value in range(ty)", in_range(e.ty, e.result.value))],
))


def _build_cast(g, a):
    ir = _ir()
    ca = ir.Const(a, "a", g["src"])
    node = ir.Cast(ca, "x", g["ty"])
    return {"args": [node], "env": {"a": a, "node": node}}


def _mk_eval_cast(c, g):
    lo, hi = lo_hi(g["src"]) if g["src"].is_integer else (0, 1 << 64)
    a = make_value(("range", lo, hi), "a", c)
    d = _build_cast(g, a)
    d["inputs"] = {"a": a}
    return d


def _samples_a(g, rnd):
    lo, hi = lo_hi(g["src"]) if g["src"].is_integer else (0, 1 << 64)
    return [{"a": v} for v in [lo, hi - 1, 0, 1, -1 if lo < 0 else 2, hi // 2, lo // 2, 127, 128, 255, 256] if lo <= v < hi]


def _cast_post(e):
    ty = e.ty
    out = [("result is a Const of the cast's type", _is_const_in(e, ty))]
    if ty.is_integer:
        out += [("value == wrap(ty, src value)", e.result.value == wrap(ty, e.a)),
                ("value in range(ty)", in_range(ty, e.result.value))]
    else:
        out += [("pointer cast keeps the value", e.result.value == e.a)]
    return out


_PTR = _ir().ptr
CONTRACTS.append(Contract(
    M + ":ConstantFolder.eval_const", "C38", label=M + ":ConstantFolder.eval_const(Cast)",
    grid=[{"src": s, "ty": t} for s in TYPES + [_PTR] for t in TYPES + [_PTR]], modules=["ppci.ir"],
    make=_mk_eval_cast, replay_args=lambda g, v: _build_cast(g, v["a"]),
    sample_inputs=_samples_a,
    call=_eval_call,
    ensures=_cast_post,
))


# ---- on_block: whole-instruction fold and the two chain folds -----------------
def _build_block(g, a, b):
    """entry block:  c1 = a; c2 = b; t = y op c1; x = t op c2   (chain)
                or:  c1 = a; c2 = b; x = c1 op c2               (full fold)"""
    ir = _ir()
    ty = g["ty"]
    f = ir.Function("f", ir.Binding.GLOBAL, ty)
    y = ir.Parameter("y", ty)
    f.add_parameter(y)
    blk = ir.Block("entry")
    f.add_block(blk)
    f.entry = blk
    c1, c2 = ir.Const(a, "c1", ty), ir.Const(b, "c2", ty)
    blk.add_instruction(c1)
    blk.add_instruction(c2)
    if g["shape"] == "chain":
        t = ir.Binop(y, g["op"], c1, "t", ty)
        x = ir.Binop(t, g.get("op2", g["op"]), c2, "x", ty)
        blk.add_instruction(t)
    else:
        t = None
        x = ir.Binop(c1, g["op"], c2, "x", ty)
    blk.add_instruction(x)
    ret = ir.Return(x)
    blk.add_instruction(ret)
    return {"args": [blk], "env": {"a": a, "b": b, "blk": blk, "x": x, "t": t, "y": y, "c1": c1, "c2": c2, "ret": ret}}


def _mk_block(c, g):
    a, b = _make_ab(c, g)
    d = _build_block(g, a, b)
    d["inputs"] = {"a": a, "b": b}
    return d


def _block_call(fn, env, args, kwargs):
    from ppci.opt.constantfolding import ConstantFolder
    cf = ConstantFolder()
    cf.on_block(*args)
    return None


def _chain_post(e):
    ir = _ir()
    ty, op = e.ty, e.op
    x = e.x
    cn = x.b
    out = [("x still computes on y and is still returned", x.a is e.y and x.operation == op and e.ret.result is x),
           ("new operand is a Const of the type", isinstance(cn, ir.Const) and cn.ty is ty)]
    if not (isinstance(cn, ir.Const)):
        return out
    out.append(("folded constant in range(ty)", in_range(ty, cn.value)))
    # semantic clause for every run-time value of y
    lo, hi = lo_hi(ty)
    from pyvc.sym import ctx, active
    if active():
        yv = make_value(("range", lo, hi), "yv", ctx())
        ys = [yv]
    else:
        ys = [lo, hi - 1, 0, 1, 77 % hi]
    for yv in ys:
        before = ir_binop(op, ty, ir_binop(op, ty, yv, e.a), e.b)
        after = ir_binop(op, ty, yv, cn.value) if True else None
        out.append(("(y op c1) op c2 == y op folded, for every y", before == wrap(ty, (yv + cn.value) if op == "+" else (yv - cn.value))))
    return out


CONTRACTS.append(Contract(
    M + ":ConstantFolder.on_block", "C38", label=M + ":ConstantFolder.on_block(chain fold)",
    grid=[{"op": op, "ty": t, "shape": "chain"} for op in ("+", "-") for t in TYPES], modules=["ppci.ir"],
    make=_mk_block, replay_args=lambda g, v: _build_block(g, v["a"], v["b"]),
    sample_inputs=_samples_ab,
    call=_block_call,
    ensures=_chain_post,
))


def ir_eval(v, yv):
    """IR run-time value of a value node built from the parameter y, constants and binary operators"""
    ir = _ir()
    if isinstance(v, ir.Parameter):
        return yv
    if isinstance(v, ir.Const):
        return v.value
    if isinstance(v, ir.Binop):
        return ir_binop(v.operation, v.ty, ir_eval(v.a, yv), ir_eval(v.b, yv))
    raise Undecided("contract stale: on_block produced a %s node" % type(v).__name__)


def _consts_of(v, acc):
    ir = _ir()
    if isinstance(v, ir.Const):
        acc.append(v)
    elif isinstance(v, ir.Binop):
        _consts_of(v.a, acc)
        _consts_of(v.b, acc)
    return acc


def _mixed_post(e):
    """whatever on_block rewrites: the returned value is the same function of y, and every constant stays in range"""
    ty = e.ty
    lo, hi = lo_hi(ty)
    from pyvc.sym import ctx, active
    ys = [make_value(("range", lo, hi), "yv", ctx())] if active() else [lo, hi - 1, 0, 1, 77 % hi, 5]
    out = []
    for yv in ys:
        before = ir_binop(e.op2, ty, ir_binop(e.op, ty, yv, e.a), e.b)
        out.append(("the value returned after on_block == (y %s c1) %s c2 under IR semantics, for every y" % (e.op, e.op2), ir_eval(e.ret.result, yv) == before))
    for cst in _consts_of(e.ret.result, []):
        out.append(("constant %s in range(ty)" % cst.name, in_range(ty, cst.value)))
    return out


CONTRACTS.append(Contract(
    M + ":ConstantFolder.on_block", "C38", label=M + ":ConstantFolder.on_block(chains with mixed operators: value preservation)",
    grid=[{"op": o1, "op2": o2, "ty": t, "shape": "chain"} for o1 in ("+", "-") for o2 in ("+", "-") for t in (TYPES if tier() != "quick" else TYPES[:1] + TYPES[3:5] + TYPES[7:])],
    modules=["ppci.ir"], make=_mk_block, replay_args=lambda g, v: _build_block(g, v["a"], v["b"]), sample_inputs=_samples_ab,
    call=_block_call, ensures=_mixed_post,
))


def _full_post(e):
    ir = _ir()
    ty = e.ty
    new = e.ret.result
    out = [("the user of x now uses a Const of the type", isinstance(new, ir.Const) and new.ty is ty)]
    if not isinstance(new, ir.Const):
        return out
    out += [("value == IR run-time value", new.value == ir_binop(e.op, ty, e.a, e.b)),
            ("value in range(ty)", in_range(ty, new.value))]
    return out


CONTRACTS.append(Contract(
    M + ":ConstantFolder.on_block", "C38", label=M + ":ConstantFolder.on_block(full fold)",
    grid=[{"op": op, "ty": t, "shape": "full"} for op in OPS for t in (TYPES if tier() != "quick" else TYPES[:1] + TYPES[3:5] + TYPES[7:])],
    modules=["ppci.ir"],
    make=_mk_block, replay_args=lambda g, v: _build_block(g, v["a"], v["b"]),
    sample_inputs=_samples_ab,
    requires=lambda e: defined(e.op, e.ty, e.a, e.b),
    call=_block_call,
    ensures=_full_post,
))

NOT_COVERED = ["IR rewiring performed by on_block beyond the shapes exercised (replace_by, insert_instruction) is C02/C03 territory",
               "eval_const is verified by structural induction: the inductive step for Binop and Cast nodes is verified with the children "
               "abstracted by their contract (a Const whose value lies in its type's range); the base case (a Const) is the identity",
               "floating point constants (cast of float values is the identity and is not specified by C38)"]
ASSUMED = ["leaf constants of the IR lie in their type's range (precondition of eval_const)"]
