"""C10 -- out-of-range operands are rejected, never silently truncated.

* every (token class, field) pair found by importing ppci.arch.*: the field setter
  rejects a value that does not fit, otherwise the getter returns v mod 2^w and no
  other bit of the token changes;
* Token.pack / unpack, BitView.__setitem__, wrap_negative, inrange, isinsrange;
* the reject clause of every relocation specification row.

`fits` at the token layer is deliberately the weakest reading (see DESIGN 6/C10): a field
declared signed fits [-2^(w-1), 2^(w-1)); a field declared unsigned fits [-2^(w-1), 2^w)
because ppci stores negative ISA-signed immediates through unsigned field declarations.
"""
import importlib
import pkgutil
import z3
from pyvc.engine import Contract, make_value
from pyvc.spec import and_, or_, not_, tier, ite
from pyvc.sym import SymInt, Undecided
from pyvc import models as MD
from contracts import relocrows as RR, relocspec as RS


def _import_arch():
    import ppci.arch
    for m in pkgutil.walk_packages(ppci.arch.__path__, "ppci.arch."):
        try:
            importlib.import_module(m.name)
        except Exception:
            pass


def token_fields():
    _import_arch()
    from ppci.arch.token import Token, _p2
    seen = []

    def subs(c):
        for s in c.__subclasses__():
            yield s
            yield from subs(s)
    out = []
    for cls in sorted(set(subs(Token)), key=lambda c: (c.__module__, c.__qualname__)):
        if cls.Info.size is None:
            continue
        names = {}
        for b in reversed(cls.__mro__):
            for k, v in b.__dict__.items():
                if isinstance(v, _p2):
                    names[k] = v
        for k in sorted(names):
            out.append((cls, k, names[k]))
    return out


def sfit(x, n):
    return and_(x >= -(1 << (n - 1)), x < (1 << (n - 1)))


def fits(prop, v):
    w = prop._bitsize
    if prop._signed:
        return sfit(v, w)
    return and_(v >= -(1 << (w - 1)), v < (1 << w))


def _mk_field(c, g):
    cls = g["cls"]
    size = cls.Info.size
    W = make_value(("range", 0, 1 << size), "W", c)
    v = make_value("int", "v", c)
    return {"args": [], "env": {"W": W, "v": v}, "inputs": {"W": W, "v": v}}


def _field_call(fn, env, args, kwargs):
    from ppci.arch.token import Token
    cls = env.cls
    tok = cls.__new__(cls)
    Token.__init__(tok, env.W)
    env["tok"] = tok
    setattr(tok, env.field, env.v)
    return tok


def _field_post(e):
    prop = e.prop
    w = prop._bitsize
    lay = RS.field_layout(e.cls, e.field)
    fmask = 0
    for (wlo, vlo, n) in lay:
        fmask |= ((1 << n) - 1) << wlo
    keep = ((1 << e.cls.Info.size) - 1) & ~fmask
    nb = e.tok.bit_value
    got = getattr(e.tok, e.field)
    out = [("getter returns v mod 2^w", got == e.v % (1 << w)),
           ("token value stays inside its size", and_(nb >= 0, nb < (1 << e.cls.Info.size)))]
    if keep:
        out.append(("frame: every bit outside the field is unchanged", (nb & keep) == (e.W & keep)))
    for (wlo, vlo, n) in lay:
        out.append(("token bits [%d:%d) == value bits [%d:%d)" % (wlo, wlo + n, vlo, vlo + n),
                    (nb >> wlo) % (1 << n) == (e.v >> vlo) % (1 << n)))
    return out


def _field_samples(g, rnd):
    w = g["prop"]._bitsize
    size = g["cls"].Info.size
    vals = [0, 1, -1, (1 << w) - 1, 1 << w, (1 << (w - 1)) - 1, 1 << (w - 1), -(1 << (w - 1)), -(1 << (w - 1)) - 1, -(1 << w), -(1 << w) - 1,
            (1 << w) + 5, -3000, 3000, 1 << 70]
    return [{"W": rnd.choice([0, (1 << size) - 1, rnd.randrange(1 << size)]), "v": v} for v in vals]


CONTRACTS = []
_FIELDS = token_fields()
if tier() == "quick":
    # one representative per distinct (size, layout, signedness): same code path, same obligations
    seen = set()
    _sel = []
    for cls, k, prop in _FIELDS:
        key = (cls.Info.size, tuple(RS.field_layout(cls, k)), prop._signed)
        if key in seen:
            continue
        seen.add(key)
        _sel.append((cls, k, prop))
else:
    _sel = _FIELDS
for cls, k, prop in _sel:
    CONTRACTS.append(Contract(
        "ppci.arch.token:Token.__setitem__", "C10", label="field %s.%s.%s" % (cls.__module__.replace("ppci.arch.", ""), cls.__name__, k),
        grid=[{"cls": cls, "field": k, "prop": prop}], modules=["ppci.arch.token"],
        make=_mk_field, call=_field_call, sample_inputs=_field_samples,
        replay_args=lambda g, v: {"args": [], "env": {"W": v["W"], "v": v["v"]}},
        raises=[((ValueError, AssertionError), lambda e: not_(fits(e.prop, e.v)))],
        ensures=_field_post,
    ))
N_FIELDS_TOTAL = len(_FIELDS)


# ---- Token.pack / unpack -------------------------------------------------------------
def _pack_classes():
    reps = {}
    for cls, k, prop in _FIELDS:
        key = (cls.Info.size, str(cls.Info.endianness))
        reps.setdefault(key, cls)
    return list(reps.values())


def _pack_post(e):
    size = e.cls.Info.size // 8
    items = MD.buf_items(e.result)
    big = str(e.cls.Info.endianness).lower().endswith("big")
    out = [("len == size", len(items) == size)]
    for i in range(min(size, len(items))):
        j = (size - 1 - i) if big else i
        out.append(("byte %d is value bits [%d:%d)" % (i, 8 * j, 8 * j + 8), items[i] == (e.x >> (8 * j)) % 256))
    out.append(("unpack(pack(x)) == x", e.cls.unpack(e.result) == e.x))
    return out


for cls in _pack_classes():
    CONTRACTS.append(Contract(
        "ppci.arch.token:Token.pack", "C10", label="Token.pack/unpack %s(%d bits, %s)" % (cls.__name__, cls.Info.size, str(cls.Info.endianness).split(".")[-1]),
        grid=[{"cls": cls}], modules=["ppci.arch.token"],
        params={"x": ("range", 0, 1 << cls.Info.size)},
        call=lambda fn, env, args, kwargs: env.cls.pack(env.x),
        ensures=_pack_post,
    ))


# ---- BitView.__setitem__ ----------------------------------------------------------------
def _bv_slices():
    used = {(2, 0, 11), (2, 2, 3), (2, 3, 6), (2, 6, 7), (2, 7, 8), (2, 8, 9), (2, 9, 11), (2, 11, 12), (2, 12, 13), (2, 3, 5), (2, 5, 7), (2, 10, 12),
            (4, 21, 31), (4, 20, 21), (4, 12, 20), (4, 31, 32), (4, 12, 32), (4, 0, 32), (4, 0, 10), (4, 10, 11), (4, 16, 27), (4, 0, 2), (4, 13, 16),
            (4, 7, 9), (4, 15, 17), (4, 0, 8), (4, 8, 16), (8, 0, 64), (8, 30, 35)}
    if tier() == "quick":
        return sorted(used)
    out = set(used)
    for ln in (2, 4):
        for a in range(ln * 8):
            for b in range(a + 1, ln * 8 + 1):
                out.add((ln, a, b))
    return sorted(out)


def _mk_bv(c, g):
    data = MD.SymBuf.fresh(c, "data", g["length"] + 1)
    value = make_value("int", "value", c)
    return {"args": [], "env": {"data": data, "value": value}, "inputs": {"data": RR.SymSeqOf(data), "value": value}}


def _bv_call(fn, env, args, kwargs):
    from ppci.utils.bitfun import BitView
    bv = BitView(env.data, 0, env.length)
    bv[env.start:env.stop] = env.value
    return env.data


def _bv_post(e):
    n = e.stop - e.start
    items = MD.buf_items(e.data)
    old = MD.buf_items(e.old.data)
    out = []
    fmask = ((1 << n) - 1) << e.start
    pos = 0
    while pos < n:
        wlo = e.start + pos
        k = min(8 - wlo % 8, n - pos)
        out.append(("bits [%d:%d) == value bits [%d:%d)" % (wlo, wlo + k, pos, pos + k),
                    RR.seg_extract(items, wlo, k) == (e.value >> pos) % (1 << k)))
        pos += k
    for j in range(len(items)):
        keep = 0xFF & ~(fmask >> (8 * j))
        if keep:
            out.append(("frame: byte %d outside [start, stop) unchanged" % j, (items[j] & keep) == (old[j] & keep)))
    return out


CONTRACTS.append(Contract(
    "ppci.utils.bitfun:BitView.__setitem__", "C10",
    grid=[{"length": ln, "start": a, "stop": b} for (ln, a, b) in _bv_slices()],
    make=_mk_bv, call=_bv_call,
    replay_args=lambda g, v: {"args": [], "env": {"data": bytearray(v["data"]), "value": v["value"]}},
    sample_inputs=lambda g, rnd: [{"data": {"__bytearray__": [rnd.randrange(256) for _ in range(g["length"] + 1)]},
                                   "value": val} for val in (0, 1, (1 << (g["stop"] - g["start"])) - 1, 1 << (g["stop"] - g["start"]), 5)],
    requires=lambda e: [e.value >= 0],
    raises=[(AssertionError, lambda e: e.value >= (1 << (e.stop - e.start)))],
    ensures=_bv_post,
))

# ---- wrap_negative / inrange / isinsrange ---------------------------------------------------
_BITS = [7, 8, 10, 11, 12, 16, 18, 20, 24, 32, 64] if tier() == "quick" else list(range(1, 65))
CONTRACTS.append(Contract(
    "ppci.utils.bitfun:wrap_negative", "C10", params={"value": "int", "bits": "int"}, grid=[{"bits": b} for b in _BITS],
    raises=[(ValueError, lambda e: not_(and_(e.value >= -(1 << (e.bits - 1)), e.value < (1 << e.bits))))],
    ensures=lambda e: [("result == value mod 2^bits", e.result == e.value % (1 << e.bits)),
                       ("0 <= result < 2^bits", and_(e.result >= 0, e.result < (1 << e.bits)))],
))
CONTRACTS.append(Contract(
    "ppci.utils.bitfun:inrange", "C10", params={"value": "int", "bits": "int"}, grid=[{"bits": b} for b in _BITS],
    ensures=lambda e: [("result <=> value fits a signed field of `bits` bits", _iff(e.result, sfit(e.value, e.bits)))],
))
CONTRACTS.append(Contract(
    "ppci.arch.riscv.rvc_relocations:isinsrange", "C10", params={"bits": "int", "val": "int"}, grid=[{"bits": b} for b in _BITS],
    ensures=lambda e: [("result <=> val fits a signed field of `bits` bits", _iff(e.result, sfit(e.val, e.bits)))],
))


def _iff(a, b):
    from pyvc.spec import iff
    return iff(a, b)


# ---- reject clause of every relocation row ----------------------------------------------------
CONTRACTS += RR.reject_contracts("C10")

ASSUMED = ["relocation specification rows (contracts/relocspec.py), T5",
           "quick tier: one representative per distinct (token size, field layout, signedness) of the %d (token class, field) pairs; "
           "the thorough tier runs all pairs" % N_FIELDS_TOTAL]
NOT_COVERED = ["that each instruction class maps its operands to the right fields (C08)",
               "relocation classes without a row: %s" % sorted(k for k in RS.NO_ROW if not k.endswith(":CRel"))]

KNOWN_HELPERS = {"row_accepts": RS.row_accepts}
