"""C18 -- Intel HEX files (ppci/format/hexfile.py).

Spec reader `HexReader` = the I32HEX decoding rules (':' + hex bytes; byte count; checksum
making the byte sum 0 mod 256; 16-bit big-endian offset; record types DATA / EOF / EXTLINADR /
STARTADDR; absolute address = (upper << 16) + offset; EOF last and empty).  The writer is correct
iff feeding its lines to the reader yields exactly the regions' bytes at their addresses and the
start address.  Hex text is abstract (assumed inverse pair hexlify / fromhex, T4).

Deductive (all addresses, data of any length): HexLine.to_line, HexLine.from_line, their round
trip, HexFile.save (loop invariant over the chunk iteration of each region; number of regions
is a grid parameter).  Shape-bounded (bounded, not counted as proved): HexFile.load on record
sequences of bounded length, add_region/check on a bounded number of regions.
"""
import z3
from pyvc.engine import Contract, Loop, make_value, Env
from pyvc.spec import and_, or_, not_, implies, ite, seq_eq, length, cat, tier, iff, nth, seq_at
from pyvc.sym import SymSeq, SymInt, SymBool, ctx, mkb, mk, Undecided, as_z3_int, as_z3_bool
from pyvc import sym as S
from pyvc import models as MD

M = "ppci.format.hexfile"
DATA, EOF, EXTLINADR, STARTADDR = 0, 1, 4, 5


def _setup(g):
    import ppci.format.hexfile as hf
    old = (hf.binascii, hf.chunks, hf.struct)
    hf.binascii = MD.binascii_proxy
    hf.chunks = MD.chunks_model
    hf.struct = MD.struct_proxy

    def undo():
        hf.binascii, hf.chunks, hf.struct = old
    return undo


def parse_record(line):
    """bytes of one record line, or None if the line is not ':' + hex text"""
    if not (isinstance(line, str) and len(line) >= 1 and line[0] == ":"):
        return None
    try:
        return MD.unhex_text(line[1:])
    except ValueError:
        return None


def _len(x):
    return length(x)


CONTRACTS = []


# ---- HexLine.to_line ---------------------------------------------------------------------------
def _mk_line(c, g):
    address = make_value("int", "address", c)
    typ = make_value(("range", 0, 256), "typ", c)
    data = make_value("bytes", "data", c)
    env = {"address": address, "typ": typ, "data": data}
    return {"args": [], "env": env, "inputs": dict(env)}


def _line_call(fn, env, args, kwargs):
    from ppci.format.hexfile import HexLine
    return HexLine(env.address, env.typ, env.data).to_line()


def _line_post(e):
    R = parse_record(e.result)
    if R is None:
        return [("line is ':' followed by hex text", False)]
    n = _len(R)
    return [("record has count, offset, type and checksum bytes", n == _len(e.data) + 5),
            ("byte count field == len(data)", R[0] == _len(e.data)),
            ("offset field is the big-endian 16-bit address", R[1] * 256 + R[2] == e.address),
            ("record type field", R[3] == e.typ),
            ("data field == data", seq_eq(R[4:-1], e.data)),
            ("checksum: the byte sum of the record is 0 mod 256", (MD.seq_sum(R[:-1]) + R[-1]) % 256 == 0)]


def _line_samples(g, rnd):
    out = []
    for _ in range(20):
        out.append({"address": rnd.choice([0, 1, 0xFF, 0x100, 0xFFFF, 0x10000, -1, 0x1234]), "typ": rnd.choice([0, 1, 4, 5, 255]),
                    "data": {"__bytes__": [rnd.randrange(256) for _ in range(rnd.choice([0, 1, 2, 4, 16, 30, 255, 256]))]}})
    return out


def _struct_error():
    import struct
    return struct.error


CONTRACTS.append(Contract(
    M + ":HexLine.to_line", "C18", make=_mk_line, call=_line_call, setup=_setup, sample_inputs=_line_samples,
    replay_args=lambda g, v: {"args": [], "env": dict(v)},
    raises=[(ValueError, lambda e: _len(e.data) > 255),
            (_struct_error(), lambda e: and_(_len(e.data) <= 255, not_(and_(e.address >= 0, e.address < 65536))))],
    ensures=_line_post,
))


# ---- HexLine.from_line -------------------------------------------------------------------------
def _mk_from(c, g):
    R = make_value("bytes", "R", c)
    return {"args": [], "env": {"R": R}, "inputs": {"R": R}}


def _text_of(R):
    if isinstance(R, SymSeq):
        return ":" + MD.hexlify(R).decode("ascii")
    return ":" + bytes(R).hex()


def _from_call(fn, env, args, kwargs):
    from ppci.format.hexfile import HexLine
    return HexLine.from_line(_text_of(env.R))


def _wf(R):
    if isinstance(R, (bytes, bytearray)):
        return len(R) >= 5 and R[0] == len(R) - 5 and sum(R) % 256 == 0
    n = _len(R)
    return and_(n >= 5, nth(R, 0) == n - 5, MD.seq_sum(R) % 256 == 0)


def _from_post(e):
    R = e.R
    h = e.result
    return [("address == big-endian offset field", h.address == R[1] * 256 + R[2]),
            ("typ == record type field", h.typ == R[3]),
            ("data == data field", seq_eq(h.data, R[4:-1]))]


def _hexexc():
    from ppci.format.hexfile import HexFileException
    return (HexFileException, IndexError)


def _from_samples(g, rnd):
    out = []
    for _ in range(24):
        n = rnd.choice([0, 1, 2, 4, 16])
        body = [n, rnd.randrange(256), rnd.randrange(256), rnd.choice([0, 1, 4, 5])] + [rnd.randrange(256) for _ in range(n)]
        body.append((-sum(body)) % 256)
        k = rnd.random()
        if k < 0.2:
            body[-1] = (body[-1] + 1) % 256
        elif k < 0.4:
            body[0] = (body[0] + 1) % 256
            body[-1] = (body[-1] - 1) % 256
        elif k < 0.5:
            body = body[:rnd.randrange(0, 5)]
        out.append({"R": {"__bytes__": body}})
    return out


CONTRACTS.append(Contract(
    M + ":HexLine.from_line", "C18", make=_mk_from, call=_from_call, setup=_setup, sample_inputs=_from_samples,
    replay_args=lambda g, v: {"args": [], "env": dict(v)},
    raises=[(_hexexc(), lambda e: not_(_wf(e.R)))],
    ensures=_from_post,
))


# ---- round trip from_line(to_line(h)) == h -----------------------------------------------------------
def _rt_call(fn, env, args, kwargs):
    from ppci.format.hexfile import HexLine
    line = HexLine(env.address, env.typ, env.data).to_line()
    if S.active():
        # instance of the arithmetic fact  sum(A ++ [c]) == sum(A) + c  (assumed, listed in ASSUMED: z3 does no induction
        # over sequences; every other use of the checksum in this file is stated over the same syntactic term)
        R = parse_record(line)
        A, c = R[:-1], R[-1]
        ctx().assume(as_z3_bool(MD.seq_sum(cat(A, SymSeq.from_list([c], "bytes"))) == MD.seq_sum(A) + c))
    return HexLine.from_line(line)


CONTRACTS.append(Contract(
    M + ":HexLine.from_line", "C18", label=M + ":HexLine.from_line(to_line(h)) round trip",
    make=_mk_line, call=_rt_call, setup=_setup, sample_inputs=_line_samples,
    replay_args=lambda g, v: {"args": [], "env": dict(v)},
    requires=lambda e: [e.address >= 0, e.address < 65536, _len(e.data) <= 255],
    ensures=lambda e: [("address survives", e.result.address == e.address), ("typ survives", e.result.typ == e.typ),
                       ("data survives", seq_eq(e.result.data, e.data))],
))


# ---- the specification reader -------------------------------------------------------------------------
class HexReader:
    """I32HEX reader (specification).  State: upper (current upper 16 address bits), segs
    (list of [base, bytes]: maximal runs of consecutively written bytes in file order), start
    (start linear address or None), eof.  Rules are collected as obligations (one per rule)."""

    def __init__(self):
        self.upper = 0
        self.segs = []
        self.start = None
        self.eof = False
        self.ok = True
        self.pending = []
        self.why = []

    def _req(self, name, cond):
        if isinstance(cond, bool):
            if not cond:
                self.why.append(name)
                self.ok = False
            return
        if S.active():
            self.pending.append((name, cond))
        else:
            if not bool(cond):
                self.why.append(name)
            self.ok = self.ok and bool(cond)

    def verdict(self):
        return [("reader accepted every earlier record", self.ok)] + [("record rule: " + n, c) for n, c in self.pending]

    def feed_line(self, line):
        R = parse_record(line)
        if R is None:
            self._req("line is ':' + hex text", False)
            return
        n = _len(R)
        self._req("no record after the end-of-file record", not self.eof)
        self._req("record has count, offset, type, checksum", n >= 5)
        self._req("byte count field == number of data bytes", R[0] == n - 5)
        self._req("checksum: byte sum of the record is 0 mod 256", (MD.seq_sum(R[:-1]) + R[-1]) % 256 == 0)
        typ = R[3]
        if isinstance(typ, SymInt):
            t = S._concrete(typ)
            if t is None:
                raise Undecided("record type is symbolic")
            typ = t
        offset = R[1] * 256 + R[2]
        data = R[4:-1]
        if typ == DATA:
            a = self.upper * 65536 + offset
            self._req("data record stays below 4 GiB", a + _len(data) <= (1 << 32))
            if self.segs and _truth(self.segs[-1][0] + _len(self.segs[-1][1]) == a):
                self.segs[-1][1] = _cat(self.segs[-1][1], data)
            else:
                self.segs.append([a, data])
        elif typ == EOF:
            self._req("end-of-file record carries no data", _len(data) == 0)
            self.eof = True
        elif typ == EXTLINADR:
            self._req("extended linear address record carries 2 bytes", _len(data) == 2)
            self._req("extended linear address record has offset 0", offset == 0)
            self.upper = data[0] * 256 + data[1]
        elif typ == STARTADDR:
            self._req("start linear address record carries 4 bytes", _len(data) == 4)
            self.start = ((data[0] * 256 + data[1]) * 256 + data[2]) * 256 + data[3]
        else:
            self._req("record type is one of 00, 01, 04, 05", False)


def _truth(c):
    if isinstance(c, bool):
        return c
    return bool(c)


def _cat(a, b):
    if isinstance(a, SymSeq) or isinstance(b, SymSeq):
        return cat(a, b)
    return bytes(a) + bytes(b)


# ---- HexFile.save ----------------------------------------------------------------------------------
def _mk_save(c, g):
    from ppci.format.hexfile import HexFile, HexFileRegion
    hx = HexFile()
    env = {}
    inputs = {}
    regs = []
    for i in range(g["nregions"]):
        a = make_value("int", "addr%d" % i, c)
        d = make_value("bytes", "data%d" % i, c)
        env["addr%d" % i], env["data%d" % i] = a, d
        inputs["addr%d" % i], inputs["data%d" % i] = a, d
        regs.append(HexFileRegion(a, d))
    hx.regions = regs
    st = make_value("int", "start", c)
    env["start"] = st
    inputs["start"] = st
    hx.start_address = st
    f = MD.GhostFile(HexReader())
    env.update({"hx": hx, "f": f})
    return {"args": [hx, f], "env": env, "inputs": inputs}


def _replay_save(g, v):
    from ppci.format.hexfile import HexFile, HexFileRegion
    hx = HexFile()
    env = dict(v)
    hx.regions = [HexFileRegion(v["addr%d" % i], bytes(v["data%d" % i])) for i in range(g["nregions"])]
    hx.start_address = v["start"]
    f = MD.GhostFile(HexReader())
    env.update({"hx": hx, "f": f})
    for i in range(g["nregions"]):
        env["data%d" % i] = bytes(v["data%d" % i])
    return {"args": [hx, f], "env": env}


def _save_pre(e):
    """the HexFile class invariant the property names: non-empty, sorted, non-overlapping, merged (non-adjacent)
    regions below 4 GiB; start address is a 32-bit value"""
    out = [e.start >= 0, e.start < (1 << 32)]
    k = e.nregions
    for i in range(k):
        a, d = e["addr%d" % i], e["data%d" % i]
        out += [a >= 0, _len(d) >= 1, a + _len(d) <= (1 << 32)]
        if i:
            out.append(e["addr%d" % (i - 1)] + _len(e["data%d" % (i - 1)]) < a)
    return out


def _havoc_file(f, c, name):
    """reader state at the head of the chunk loop: everything decoded before this region is kept
    as it is; for the current region either nothing has been decoded yet, or one run of bytes
    (fresh base, fresh non-empty contents); upper / ok are fresh."""
    r = f.reader
    r.entry_nsegs = len(r.segs)
    r.segs = [list(s) for s in r.segs]
    started = z3.Bool(c.fresh_name(name + ".started"))
    if c.decide(started):
        base = SymInt(z3.Int(c.fresh_name(name + ".base")))
        cur = SymSeq(z3.Const(c.fresh_name(name + ".cur"), S.ISeq), "bytes", (0, 256))
        c.assume(z3.Length(cur.e) > 0)
        r.segs.append([base, cur])
    r.upper = SymInt(z3.Int(c.fresh_name(name + ".upper")))
    r.ok = SymBool(z3.Bool(c.fresh_name(name + ".ok")))
    r.pending = []
    return f


def _havoc_chunks(it, c, name):
    if not isinstance(it, MD.SymChunks):
        raise Undecided("HexFile.save no longer iterates over chunks(region.data)")
    it.rem = SymSeq(z3.Const(c.fresh_name(name + ".rem"), S.ISeq), "bytes", (0, 256))
    return it


def _written(e):
    r = e.f.reader
    n0 = getattr(r, "entry_nsegs", len(r.segs))
    if len(r.segs) == n0 + 1:
        return r.segs[-1]
    if len(r.segs) == n0:
        return None
    return "split"


def _save_inv(e):
    r = e.f.reader
    if not hasattr(r, "entry_nsegs"):
        r.entry_nsegs = len(r.segs)
    w = _written(e)
    if w == "split":
        # on a feasible path this is a violation (a region's records are not contiguous); the
        # obligation is `False` under the path condition, i.e. the path must be infeasible
        return [("the records written for one region decode to one contiguous run of bytes", False)]
    region = e.region
    it = e.it1__
    wlen = _len(w[1]) if w is not None else 0
    out = r.verdict()
    if w is not None:
        out += [("the bytes decoded for this region start at region.address", w[0] == region.address),
                ("decoded bytes ++ data still to be written == region.data", seq_eq(cat(w[1], it.rem), region.data)),
                ("a decoded run is not empty", wlen > 0)]
    else:
        out += [("nothing written yet: all of region.data is still to be written", seq_eq(it.rem, region.data))]
    out += [
        ("len(decoded) + len(remaining) == len(region.data)", wlen + _len(it.rem) == _len(region.data)),
        ("reader's upper address bits == ext >> 16", r.upper * 65536 == e.ext),
        ("ext is a non-negative multiple of 64 KiB", and_(e.ext >= 0, e.ext % 65536 == 0)),
        ("ext + address == address of the next byte to write", e.ext + e.address == region.address + wlen),
        ("0 <= address < 64 KiB + record size", and_(e.address >= 0, e.address < 65536 + it.size)),
        ("no end-of-file record yet", not r.eof),
        ("no start address record yet", r.start is None),
    ]
    return out


def _save_post(e):
    r = e.f.reader
    k = e.nregions
    out = (r.verdict() if S.active() else [("every record respects the I32HEX rules (%s)" % r.why[:2], r.ok)])
    out.append(("file ends with an end-of-file record", r.eof))
    out.append(("number of decoded runs == number of regions", len(r.segs) == k))
    if len(r.segs) == k:
        for i in range(k):
            out.append(("decoded run %d starts at region %d's address" % (i, i), r.segs[i][0] == e.old["addr%d" % i]))
            out.append(("decoded run %d == region %d's bytes" % (i, i), seq_eq(r.segs[i][1], e.old["data%d" % i])))
    out.append(("decoded start address == start_address (no record means 0)", (r.start if r.start is not None else 0) == e.old.start))
    return out


def _save_samples(g, rnd):
    out = []
    for _ in range(10):
        d = {"start": rnd.choice([0, 0, 0x8000000, 0xFFFFFFFF, 0x1234])}
        base = rnd.choice([0, 0xFFE0, 0xFFF0, 0xFFFF, 0x10000 - 30, 0x1FFC4, 0xFFFF0000, 0x12345])
        for i in range(g["nregions"]):
            n = rnd.choice([1, 2, 29, 30, 31, 60, 61, 100, 0x10001])
            d["addr%d" % i] = base
            d["data%d" % i] = {"__bytes__": [rnd.randrange(256) for _ in range(n)]}
            base = base + n + rnd.choice([1, 2, 0x10000, 0xFFFF - n])
        if base <= (1 << 32):
            out.append(d)
    return out


CONTRACTS.append(Contract(
    M + ":HexFile.save", "C18", grid=[{"nregions": k} for k in ((0, 1, 2) if tier() == "quick" else (0, 1, 2, 3))],
    make=_mk_save, replay_args=_replay_save, setup=_setup, sample_inputs=_save_samples,
    requires=_save_pre, ensures=_save_post,
    loops={1: Loop(
        havoc={"address": "int", "ext": "int", "it1__": ("object", _havoc_chunks), "f": ("object", _havoc_file)},
        ghost_init=lambda e: (setattr(e.f.reader, "entry_nsegs", len(e.f.reader.segs)) or {}),
        invariant=_save_inv,
    )},
))


# ---- shape-bounded: add_region / check, load ----------------------------------------------------------------
def _view_eq_obligations(name, segsA, segsB):
    """the two lists of (base, bytes) denote the same partial map address -> byte.  Symbolic: one
    skolem address x (validity for the free x is the universal statement)."""
    if not S.active():
        def tomap(segs):
            m = {}
            for b, d in segs:
                for i, v in enumerate(bytes(d)):
                    m[b + i] = v
            return m
        return [(name, tomap(segsA) == tomap(segsB))]
    c = ctx()
    x = SymInt(z3.Int(c.fresh_name("x")))

    def cov(seg):
        return and_(seg[0] <= x, x < seg[0] + _len(seg[1]))

    def val(seg):
        return seq_at(SymSeq.lift(seg[1]), x - seg[0])
    inA = or_(*[cov(s) for s in segsA]) if segsA else False
    inB = or_(*[cov(s) for s in segsB]) if segsB else False
    out = [(name + ": same set of addresses", iff(inA, inB))]
    for i, sa in enumerate(segsA):
        for j, sb in enumerate(segsB):
            out.append((name + ": same byte where input %d and result %d cover an address" % (i, j),
                        implies(and_(cov(sa), cov(sb)), val(sa) == val(sb))))
    return out


def _mk_regions(c, g):
    env = {}
    for i in range(g["n"]):
        env["addr%d" % i] = make_value("int", "addr%d" % i, c)
        env["data%d" % i] = make_value("bytes", "data%d" % i, c)
    return {"args": [], "env": env, "inputs": dict(env)}


def _addregion_call(fn, env, args, kwargs):
    from ppci.format.hexfile import HexFile
    hx = HexFile()
    env["hx"] = hx
    for i in range(env.n):
        hx.add_region(env["addr%d" % i], env["data%d" % i] if isinstance(env["data%d" % i], SymSeq) else bytes(env["data%d" % i]))
    return hx


def _disjoint_inputs(e):
    out = []
    for i in range(e.n):
        out.append(_len(e["data%d" % i]) >= 1)
        out.append(e["addr%d" % i] >= 0)
        for j in range(i):
            ai, aj = e["addr%d" % i], e["addr%d" % j]
            out.append(or_(ai + _len(e["data%d" % i]) <= aj, aj + _len(e["data%d" % j]) <= ai))
    return out


def _addregion_post(e):
    regs = e.result.regions
    ins = [(e.old["addr%d" % i], e.old["data%d" % i]) for i in range(e.n)]
    outs = [(r.address, r.data) for r in regs]
    out = _view_eq_obligations("merged regions denote the inputs' bytes", ins, outs)
    for i in range(1, len(regs)):
        out.append(("regions sorted and merged: end of region %d < start of region %d" % (i - 1, i),
                    regs[i - 1].address + _len(regs[i - 1].data) < regs[i].address))
    return out


def _region_samples(g, rnd):
    out = []
    n = g["n"]
    for _ in range(40):
        sizes = [rnd.choice([1, 2, 4, 4, 8]) for _ in range(n)]
        gaps = [rnd.choice([0, 0, 0, 1, 5]) for _ in range(n)]
        addrs = []
        a = rnd.choice([0, 0xFFF8, 100])
        for i in range(n):
            a += gaps[i]
            addrs.append(a)
            a += sizes[i]
        order = list(range(n))
        rnd.shuffle(order)
        d = {}
        for pos, i in enumerate(order):
            d["addr%d" % pos] = addrs[i]
            d["data%d" % pos] = {"__bytes__": [rnd.randrange(256) for _ in range(sizes[i])]}
        out.append(d)
    return out


BOUNDED_CONTRACTS = [Contract(
    M + ":HexFile.add_region", "C18", label=M + ":HexFile.add_region/check [shape-bounded: n regions added in any order]",
    grid=[{"n": n} for n in ((1, 2, 3) if tier() == "quick" else (1, 2, 3, 4))],
    make=_mk_regions, call=_addregion_call, setup=_setup, sample_inputs=_region_samples,
    replay_args=lambda g, v: {"args": [], "env": dict(v)},
    requires=_disjoint_inputs, ensures=_addregion_post,
)]


# load: record sequences of bounded length, symbolic offsets / data
def _rec_bytes(c, name, typ):
    """well-formed record bytes of the given type with symbolic offset and data"""
    if typ == DATA:
        data = make_value("bytes", name + ".data", c)
        c.assume(z3.And(z3.Length(data.e) >= 1, z3.Length(data.e) <= 255))
    elif typ == EXTLINADR:
        data = SymSeq.from_list([make_value(("range", 0, 256), "%s.d%d" % (name, i), c) for i in range(2)], "bytes")
        data.elem_bounds = (0, 256)
    elif typ == STARTADDR:
        data = SymSeq.from_list([make_value(("range", 0, 256), "%s.d%d" % (name, i), c) for i in range(4)], "bytes")
        data.elem_bounds = (0, 256)
    else:
        data = SymSeq(S.empty_seq(), "bytes", (0, 256))
    hi = make_value(("range", 0, 256), name + ".hi", c) if typ == DATA else 0
    lo = make_value(("range", 0, 256), name + ".lo", c) if typ == DATA else 0
    head = SymSeq.from_list([data._len(), hi, lo, typ], "bytes")
    body = cat(head, data)
    crc = make_value(("range", 0, 256), name + ".crc", c)
    R = cat(body, SymSeq.from_list([crc], "bytes"))
    R = SymSeq(R.e, "bytes", (0, 256))
    c.assume(as_z3_bool(MD.seq_sum(R) % 256 == 0))
    return R


def _mk_load(c, g):
    recs = [_rec_bytes(c, "r%d" % i, t) for i, t in enumerate(g["types"])]
    env = {"recs": recs}
    return {"args": [], "env": env, "inputs": {"r%d" % i: r for i, r in enumerate(recs)}}


def _load_call(fn, env, args, kwargs):
    from ppci.format.hexfile import HexFile
    lines = [_text_of(r) + "\n" for r in env.recs]
    reader = HexReader()
    for l in lines:
        reader.feed_line(l.strip())
    env["reader"] = reader
    return HexFile.load(lines)


def _load_post(e):
    r = e.reader
    regs = e.result.regions
    outs = [(x.address, x.data) for x in regs]
    out = _view_eq_obligations("loaded regions denote the bytes the records carry", [tuple(s) for s in r.segs], outs)
    for i in range(1, len(regs)):
        out.append(("regions sorted and merged: end of region %d < start of region %d" % (i - 1, i),
                    regs[i - 1].address + _len(regs[i - 1].data) < regs[i].address))
    out.append(("start address == the start linear address record (0 without one)",
                e.result.start_address == (r.start if r.start is not None else 0)))
    return out


def _load_pre(e):
    """record streams in which data records do not overlap (what a conforming writer produces)"""
    r = HexReader()
    for rec in e.recs:
        r.feed_line(_text_of(rec))
    out = []
    segs = r.segs
    for i in range(len(segs)):
        for j in range(i):
            out.append(or_(segs[i][0] + _len(segs[i][1]) <= segs[j][0], segs[j][0] + _len(segs[j][1]) <= segs[i][0]))
    return out


def _load_grid():
    shapes = [(DATA, EOF), (EXTLINADR, DATA, EOF), (EXTLINADR, DATA, DATA, EOF), (DATA, EXTLINADR, DATA, EOF),
              (EXTLINADR, DATA, STARTADDR, EOF), (STARTADDR, EOF)]
    if tier() != "quick":
        shapes += [(EXTLINADR, DATA, DATA, DATA, EOF), (EXTLINADR, DATA, EXTLINADR, DATA, DATA, EOF), (DATA, DATA, EXTLINADR, DATA, STARTADDR, EOF)]
    return [{"types": s} for s in shapes]


BOUNDED_CONTRACTS.append(Contract(
    M + ":HexFile.load", "C18", label=M + ":HexFile.load [shape-bounded: record sequences of bounded length]",
    grid=_load_grid(), make=_mk_load, call=_load_call, setup=_setup,
    requires=_load_pre, ensures=_load_post,
))

CONTRACTS += BOUNDED_CONTRACTS
BOUNDED_LABELS = [c.label for c in BOUNDED_CONTRACTS]
BOUNDS_TEXT = ("add_region/check: up to %d regions added in every order, addresses and contents symbolic (any length); "
               "load: %d record-type sequences of up to %d records, offsets and data symbolic" % (
                   max(g["n"] for g in BOUNDED_CONTRACTS[0].grid), len(BOUNDED_CONTRACTS[1].grid), max(len(g["types"]) for g in BOUNDED_CONTRACTS[1].grid)))

ASSUMED = ["arithmetic fact: the sum of a byte sequence extended by one byte is the old sum plus that byte (used once, in the to_line/from_line round trip)",
           "T4 binascii.hexlify / bytes.fromhex are an inverse pair (hex text kept abstract)",
           "T4 struct.pack/unpack of '>H' / '>I': range => struct.error, big-endian image (pyvc.models.struct_proxy)",
           "print(x, file=f) writes str(x) followed by a newline to f",
           "chunks(data) replaced by the model derived from its contract (chunks itself is verified under C19)",
           "HexLine.to_line is executed in place inside HexFile.save (verified as part of the caller as well as on its own)"]
NOT_COVERED = ["agreement with third-party Intel HEX readers beyond the I32HEX record rules of the specification reader",
               "HexFile.load / add_region / check for an unbounded number of records / regions: shape-bounded only (labelled, not counted as proved)",
               "hexfields' tolerance for blank / non-record lines"]
