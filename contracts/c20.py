"""C20 -- LEB128: contracts on the four functions of ppci/utils/leb128.py.

Spec functions are the DWARF v5 (7.6, Appendix C) / WebAssembly (5.2.2)
algorithms, which define the canonical (minimal) encoding.
"""
import z3
from pyvc.engine import Contract, Loop, Env
from pyvc.spec import spec, ite, seq, cat, seq_eq, and_, or_, not_, implies, pow2, length
from pyvc.sym import SymSeq, SymIter, SymInt
from pyvc import sym as S

M = "ppci.utils.leb128"


@spec(["int"], "seq")
def uenc(x):
    return ite(x < 128, lambda: seq(x), lambda: cat(seq(x % 128 + 128), uenc(x // 128)))


def _sterm(x):
    b, r = x % 128, x // 128
    return or_(and_(r == 0, b < 64), and_(r == -1, b >= 64))


@spec(["int"], "seq")
def senc(x):
    return ite(_sterm(x), lambda: seq(x % 128), lambda: cat(seq(x % 128 + 128), senc(x // 128)))


def _is_bytes(r):
    return isinstance(r, bytes) or (isinstance(r, SymSeq) and r.kind == "bytes")


def _absv(x):
    return abs(x)


CONTRACTS = []

# ---- unsigned encoder ------------------------------------------------------
CONTRACTS.append(Contract(
    M + ":unsigned_leb128_encode", "C20",
    params={"value": "int"},
    raises=[(ValueError, lambda e: e.value < 0)],
    ensures=lambda e: [
        ("result is bytes", _is_bytes(e.result)),
        ("result == uenc(value)", seq_eq(e.result, uenc(e.value))),
    ],
    loops={0: Loop(
        havoc={"value": "int", "data": "bytelist"},
        invariant=lambda e: [
            ("value >= 0", e.value >= 0),
            ("data ++ uenc(value) == uenc(value0)", seq_eq(cat(e.data, uenc(e.value)), uenc(e.old.value))),
        ],
        decreases=lambda e: e.value,
    )},
    concrete_cases=[
        {"args": ["12"], "raises": TypeError},
        {"args": [1.5], "raises": TypeError},
        {"args": [None], "raises": TypeError},
    ],
))

# ---- signed encoder --------------------------------------------------------
CONTRACTS.append(Contract(
    M + ":signed_leb128_encode", "C20",
    params={"value": "int"},
    ensures=lambda e: [
        ("result is bytes", _is_bytes(e.result)),
        ("result == senc(value)", seq_eq(e.result, senc(e.value))),
    ],
    loops={0: Loop(
        havoc={"value": "int", "data": "bytelist"},
        invariant=lambda e: [
            ("data ++ senc(value) == senc(value0)", seq_eq(cat(e.data, senc(e.value)), senc(e.old.value))),
        ],
        decreases=lambda e: _absv(e.value),
    )},
))


# ---- decoders ---------------------------------------------------------------
def _make_dec(enc, nat):
    def make(c, g):
        v = SymInt(z3.Int("v"))
        if nat:
            c.assume(v.e >= 0)
        rest = SymSeq(z3.Const("rest", S.ISeq), "bytes")
        it = SymIter(SymSeq.lift(cat(enc(v), rest)))
        it.kind = "bytes"
        return {"args": [it], "env": {"data": it, "v": v, "rest": rest},
                "inputs": {"v": v, "rest": rest}}
    return make


def _replay_dec(enc):
    def mk(g, vals):
        v = vals["v"]
        rest = list(vals["rest"])
        stream = list(enc(v)) + rest
        it = _CountIter(stream)
        return {"args": [it], "env": {"data": it, "v": v, "rest": rest}}
    return mk


class _CountIter:
    """concrete iterator exposing remaining() like SymIter (replay only)"""

    def __init__(self, items):
        self.items = list(items)
        self.pos = 0

    def __iter__(self):
        return self

    def __next__(self):
        if self.pos >= len(self.items):
            raise StopIteration
        v = self.items[self.pos]
        self.pos += 1
        return v

    def remaining(self):
        return self.items[self.pos:]

    def __deepcopy__(self, memo):
        return self


def _dec_loop(enc, nat):
    def inv(e):
        vr = e.ghost.vr
        out = [
            ("remaining == enc(vr) ++ rest", seq_eq(e.data.remaining(), cat(enc(vr), e.old.rest))),
            ("shift >= 0", e.shift >= 0),
            ("0 <= result", e.result >= 0),
            ("result < pow2(shift)", e.result < pow2(e.shift)),
            ("result + vr*pow2(shift) == v", e.result + vr * pow2(e.shift) == e.old.v),
        ]
        if nat:
            out.append(("vr >= 0", vr >= 0))
        return out
    return Loop(
        havoc={"result": "int", "shift": "int", "data": "iter"},
        ghost_init=lambda e: {"vr": e.old.v},
        ghost_havoc={"vr": "int"},
        ghost_update=lambda e: {"vr": e.ghost.vr // 128},
        invariant=inv,
    )


for name, enc, nat in (("unsigned_leb128_decode", uenc, True), ("signed_leb128_decode", senc, False)):
    CONTRACTS.append(Contract(
        M + ":" + name, "C20",
        make=_make_dec(enc, nat),
        replay_args=_replay_dec(enc),
        sample_inputs=(lambda nat: lambda g, rnd: [
            {"v": (abs(v) if nat else v), "rest": {"__bytes__": [rnd.randrange(256) for _ in range(rnd.choice([0, 1, 3]))]}}
            for v in [0, 1, -1, 63, 64, -64, -65, 127, 128, -128, -129, 624485, -624485, 2**32, -2**63, rnd.randint(-2**70, 2**70),
                      2**125, -2**125, -2**125 - 1, 2**126, -2**126, -2**127, 2**127 - 1, -2**128, 2**128, -2**200 + 12345, 2**200 - 12345, rnd.randint(-2**300, 2**300)]])(nat),
        ensures=lambda e: [
            ("result == v", e.result == e.v),
            ("remaining == rest", seq_eq(e.data.remaining(), e.old.rest)),
        ],
        loops={0: _dec_loop(enc, nat)},
    ))


# ---- lemmas over the contracts ----------------------------------------------
from pyvc.engine import Lemma


def _x():
    return SymInt(z3.Int("x"))


def _roundtrip(enc, nat):
    def build():
        x = _x()
        hyps = [x >= 0] if nat else []
        # encoder post: result == enc(x); decoder pre: remaining == enc(v) ++ rest.
        # Instantiation v := x, rest := [] must satisfy the decoder precondition,
        # and the decoder post (result == v) is then x.
        empty = SymSeq(S.empty_seq(), "bytes")
        return hyps, seq_eq(enc(x), cat(enc(x), empty))
    return build


def _ulen_minimal(P):
    # strong induction on x >= 0:  L = len(uenc(x)) satisfies
    #   x < 2^(7L)  and  (L == 1 or x >= 2^(7(L-1)))
    # i.e. no sequence of fewer than L seven-bit groups can represent x.
    x = P.var("x")
    y = x // 128
    Lx, Ly = length(uenc(x)), length(uenc(y))

    def claim(v, L):
        return and_(L >= 1, v < pow2(7 * L), or_(L == 1, v >= pow2(7 * (L - 1))))
    P.assume(x >= 0)
    P.assume(implies(x >= 128, claim(y, Ly)))     # IH at y = x // 128 < x
    # definition unfolding (recursive spec function + sequence length only)
    P.have("unfold uenc: x < 128 => length 1", implies(x < 128, Lx == 1), using=[x >= 0])
    P.have("unfold uenc: x >= 128 => length 1 + length at x//128", implies(x >= 128, Lx == 1 + Ly), using=[x >= 0])
    # arithmetic step for every integer length L (linear arithmetic + pow2 only)
    P.have_forall("arithmetic step (any L): claim(x//128, L) => claim(x, L+1)",
                  lambda v, L: ([v >= 128, claim(v // 128, L)], claim(v, L + 1)), x, Ly)
    P.have_forall("arithmetic base: 0 <= x < 128 and L == 1 => claim(x, L)",
                  lambda v, L: ([v >= 0, v < 128, L == 1], claim(v, L)), x, Lx)
    P.show(claim(x, Lx))


def _slen_minimal(P):
    # signed: L = len(senc(x)) satisfies  -2^(7L-1) <= x < 2^(7L-1)  and
    # (L == 1 or not (-2^(7(L-1)-1) <= x < 2^(7(L-1)-1)))
    x = P.var("x")
    y = x // 128
    Lx, Ly = length(senc(x)), length(senc(y))

    def fits(v, L):
        return and_(v >= -pow2(7 * L - 1), v < pow2(7 * L - 1))

    def claim(v, L):
        return and_(L >= 1, fits(v, L), or_(L == 1, not_(fits(v, L - 1))))
    P.assume(implies(not_(_sterm(x)), claim(y, Ly)))      # IH at y = x // 128
    P.have("unfold senc: terminal group => length 1", implies(_sterm(x), Lx == 1), using=[])
    P.have("unfold senc: otherwise length 1 + length at x//128", implies(not_(_sterm(x)), Lx == 1 + Ly), using=[])
    P.have_forall("arithmetic step (any L): claim(x//128, L) => claim(x, L+1)",
                  lambda v, L: ([not_(_sterm(v)), claim(v // 128, L)], claim(v, L + 1)), x, Ly)
    P.have_forall("arithmetic base: terminal group and L == 1 => claim(x, L)",
                  lambda v, L: ([_sterm(v), L == 1], claim(v, L)), x, Lx)
    P.show(claim(x, Lx))


LEMMAS = [
    Lemma("roundtrip-unsigned: encoder post establishes decoder pre (v:=x, rest:=[])", _roundtrip(uenc, True)),
    Lemma("roundtrip-signed: encoder post establishes decoder pre (v:=x, rest:=[])", _roundtrip(senc, False)),
    Lemma("unsigned-minimal-length (induction step, IH at x//128)", _ulen_minimal, script=True),
    Lemma("signed-minimal-length (induction step, IH at x//128)", _slen_minimal, script=True),
]

ASSUMED = []
NOT_COVERED = ["callers of the LEB128 codec (wasm reader/writer, DWARF) are outside this claim"]
