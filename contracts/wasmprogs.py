"""Multi-feature WebAssembly programs with a Python reference each (C22 bounded stand-in, second part):
control flow (br_table, loops, if/else with results, br_if with a value, select, local.tee), recursion, linear
memory (data segments, sub-word loads/stores, offsets, memory.size / memory.grow), tables and call_indirect,
globals, f64 arithmetic in a loop, traps.  Every program is instantiated twice from the same Module object."""
from contracts import wasmspec as W

PROGRAMS = []
def prog(name, wat, calls, ref):
    """calls: list of (export, args); ref: python function taking the same call list, returning the list of results"""
    PROGRAMS.append((name, wat, calls, ref))

# 1 br_table
prog("br_table", '(module (func (export "f") (param i32) (result i32) (block (block (block (local.get 0) (br_table 0 1 2)) (return (i32.const 10))) (return (i32.const 11))) (i32.const 12)))',
     [("f", (x,)) for x in (0, 1, 2, 3, 7, -1)], lambda calls: [[10, 11, 12][min(W.ux(a[0], 32), 2)] for _, a in calls])
# 2 loop sum
prog("loop_sum", '''(module (func (export "f") (param i32) (result i32) (local i32 i32)
  (block (loop
    (br_if 1 (i32.ge_s (local.get 1) (local.get 0)))
    (local.set 1 (i32.add (local.get 1) (i32.const 1)))
    (local.set 2 (i32.add (local.get 2) (local.get 1)))
    (br 0)))
  (local.get 2)))''', [("f", (n,)) for n in (0, 1, 5, 10, -3)], lambda calls: [sum(range(1, a[0] + 1)) for _, a in calls])
# 3 recursion i64
prog("fac_rec", '''(module (func $fac (export "fac") (param i64) (result i64)
  (if (result i64) (i64.le_s (local.get 0) (i64.const 1)) (then (i64.const 1))
    (else (i64.mul (local.get 0) (call $fac (i64.sub (local.get 0) (i64.const 1))))))))''',
     [("fac", (n,)) for n in (0, 1, 5, 20, 21, 25)], lambda calls: [W.sx(__import__("math").factorial(max(a[0], 1)) if a[0] > 1 else 1, 64) for _, a in calls])
# 4 memory
prog("memory", '''(module (memory (export "mem") 1) (data (i32.const 8) "\\01\\02\\03\\ff")
  (func (export "ld8u") (param i32) (result i32) (i32.load8_u (local.get 0)))
  (func (export "ld8s") (param i32) (result i32) (i32.load8_s (local.get 0)))
  (func (export "ld16s") (param i32) (result i32) (i32.load16_s (local.get 0)))
  (func (export "ld32") (param i32) (result i32) (i32.load (local.get 0)))
  (func (export "st32") (param i32 i32) (result i32) (i32.store (local.get 0) (local.get 1)) (i32.const 0))
  (func (export "st8") (param i32 i32) (result i32) (i32.store8 (local.get 0) (local.get 1)) (i32.const 0))
  (func (export "ld64o") (param i32) (result i64) (i64.load offset=4 (local.get 0)))
  (func (export "size") (result i32) (memory.size))
  (func (export "grow") (param i32) (result i32) (memory.grow (local.get 0))))''',
     [("ld8u", (8,)), ("ld8u", (11,)), ("ld8s", (11,)), ("ld16s", (10,)), ("ld32", (8,)), ("st32", (16, -2)), ("ld8u", (16,)), ("ld8u", (19,)), ("ld16s", (16,)),
      ("st8", (20, 0x1ff)), ("ld32", (20,)), ("ld64o", (12,)), ("size", ()), ("grow", (1,)), ("size", ()), ("ld32", (65536,)), ("st32", (65536, 77)), ("ld32", (65536,)), ("ld32", (8,)), ("grow", (0,))],
     None)
def _mem_ref(calls):
    mem = bytearray(65536); mem[8:12] = b"\x01\x02\x03\xff"; out = []
    import struct
    for name, a in calls:
        if name == "ld8u": out.append(mem[a[0]])
        elif name == "ld8s": out.append(W.sx(mem[a[0]], 8))
        elif name == "ld16s": out.append(struct.unpack_from("<h", mem, a[0])[0])
        elif name == "ld32": out.append(struct.unpack_from("<i", mem, a[0])[0])
        elif name == "ld64o": out.append(struct.unpack_from("<q", mem, a[0] + 4)[0])
        elif name == "st32": struct.pack_into("<I", mem, a[0], W.ux(a[1], 32)); out.append(0)
        elif name == "st8": mem[a[0]] = a[1] & 0xff; out.append(0)
        elif name == "size": out.append(len(mem) // 65536)
        elif name == "grow": out.append(len(mem) // 65536); mem.extend(bytes(65536 * a[0]))
    return out
PROGRAMS[-1] = PROGRAMS[-1][:3] + (_mem_ref,)
# 5 table + call_indirect
prog("call_indirect", '''(module (type $bin (func (param i32 i32) (result i32)))
  (table 3 funcref) (elem (i32.const 0) $add $sub $mul)
  (func $add (param i32 i32) (result i32) (i32.add (local.get 0) (local.get 1)))
  (func $sub (param i32 i32) (result i32) (i32.sub (local.get 0) (local.get 1)))
  (func $mul (param i32 i32) (result i32) (i32.mul (local.get 0) (local.get 1)))
  (func (export "f") (param i32 i32 i32) (result i32) (call_indirect (type $bin) (local.get 1) (local.get 2) (local.get 0))))''',
     [("f", (i, a, b)) for i in (0, 1, 2) for a, b in ((7, 3), (-5, 9), (2147483647, 2))], lambda calls: [W.sx([a[1] + a[2], a[1] - a[2], a[1] * a[2]][a[0]], 32) for _, a in calls])
# 6 globals
prog("globals", '''(module (global $g (mut i32) (i32.const 5)) (global $k i64 (i64.const -7))
  (func (export "bump") (param i32) (result i32) (global.set $g (i32.add (global.get $g) (local.get 0))) (global.get $g))
  (func (export "k") (result i64) (global.get $k)))''',
     [("bump", (1,)), ("bump", (10,)), ("k", ()), ("bump", (-20,)), ("bump", (2147483647,))], None)
def _glob_ref(calls):
    g, out = 5, []
    for n, a in calls:
        if n == "bump": g = W.sx(g + a[0], 32); out.append(g)
        else: out.append(-7)
    return out
PROGRAMS[-1] = PROGRAMS[-1][:3] + (_glob_ref,)
# 7 memory + table + grow
prog("mem_table_grow", '''(module (type $un (func (param i32) (result i32)))
  (memory 1) (table 2 funcref) (elem (i32.const 0) $inc $dbl)
  (func $inc (param i32) (result i32) (i32.add (local.get 0) (i32.const 1)))
  (func $dbl (param i32) (result i32) (i32.mul (local.get 0) (i32.const 2)))
  (func (export "ci") (param i32 i32) (result i32) (call_indirect (type $un) (local.get 1) (local.get 0)))
  (func (export "grow") (param i32) (result i32) (memory.grow (local.get 0)))
  (func (export "ld") (param i32) (result i32) (i32.load (local.get 0)))
  (func (export "fill") (param i32 i32) (result i32) (local i32)
    (block (loop (br_if 1 (i32.ge_u (local.get 2) (local.get 1)))
      (i32.store (i32.add (local.get 0) (i32.shl (local.get 2) (i32.const 2))) (i32.const -1))
      (local.set 2 (i32.add (local.get 2) (i32.const 1))) (br 0)))
    (local.get 2)))''',
     [("ci", (0, 5)), ("ci", (1, 5)), ("grow", (1,)), ("ld", (65536,)), ("ld", (65540,)), ("ld", (65600,)), ("fill", (65536, 64)), ("ld", (65536,)), ("ci", (0, 41)), ("ci", (1, 21)), ("grow", (2,)), ("ld", (131072,)), ("ci", (1, 4))],
     lambda calls: [6, 10, 1, 0, 0, 0, 64, -1, 42, 42, 2, 0, 8])
# 8 select / tee / nested blocks
prog("select_tee", '''(module (func (export "f") (param i32 i32) (result i32) (local i32)
  (local.set 2 (select (local.get 0) (local.get 1) (i32.lt_s (local.get 0) (local.get 1))))
  (if (result i32) (i32.eqz (local.tee 2 (i32.sub (local.get 2) (i32.const 3))))
    (then (i32.const 100))
    (else (block (result i32) (br_if 0 (i32.const 7) (i32.gt_s (local.get 2) (i32.const 0))) (drop) (i32.const -7))))))''',
     [("f", (a, b)) for a in (-2, 3, 4, 10) for b in (-5, 3, 6)],
     lambda calls: [(100 if min(a[0], a[1]) - 3 == 0 else (7 if min(a[0], a[1]) - 3 > 0 else -7)) for _, a in calls])
# 9 f64 loop
prog("f64_loop", '''(module (func (export "f") (param i32) (result f64) (local f64 i32)
  (local.set 1 (f64.const 0))
  (block (loop (br_if 1 (i32.ge_s (local.get 2) (local.get 0)))
    (local.set 1 (f64.add (local.get 1) (f64.div (f64.const 1) (f64.convert_i32_s (i32.add (local.get 2) (i32.const 1))))))
    (local.set 2 (i32.add (local.get 2) (i32.const 1))) (br 0)))
  (local.get 1)))''', [("f", (n,)) for n in (0, 1, 2, 10)], None)
def _harm(calls):
    out = []
    for _, a in calls:
        s = 0.0
        for k in range(a[0]): s = s + 1.0 / float(k + 1)
        out.append(s)
    return out
PROGRAMS[-1] = PROGRAMS[-1][:3] + (_harm,)
# 10 traps
prog("traps", '''(module (memory 1) (func (export "un") (result i32) (unreachable))
  (func (export "oob") (param i32) (result i32) (i32.load (local.get 0)))
  (func (export "div") (param i32 i32) (result i32) (i32.div_u (local.get 0) (local.get 1))))''',
     [("div", (7, 2)), ("div", (7, 0)), ("un", ()), ("oob", (65533,)), ("oob", (0,))], lambda calls: [3, W.TRAP, W.TRAP, W.TRAP, 0])

def run_program(p, target="python", times=2):
    from ppci.wasm import Module, instantiate
    name, wat, calls, ref = p
    want = ref(calls)
    m = Module(wat)
    bad = []
    for rnd in range(times):                 # the same Module object is instantiated twice
        inst = instantiate(m, {}, target=target)
        got = []
        for fn, args in calls:
            try:
                got.append(getattr(inst.exports, fn)(*args))
            except Exception as ex:
                got.append(W.TRAP)
        for i, (g, w) in enumerate(zip(got, want)):
            ok = (g == W.TRAP) == (w == W.TRAP) and (g == W.TRAP or W.same(g, w))
            if not ok:
                bad.append((rnd, i, calls[i], w, g))
    return bad
