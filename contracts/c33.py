"""C33 -- IntegerSet (ppci/utils/integer_set.py).

Abstract view  view(S) = {x | exists i. lo_i <= x <= hi_i};  canonical(S): every lo_i <= hi_i and
hi_i + 1 < lo_(i+1) (sorted, non-overlapping, non-adjacent).

Every operation runs as the REAL code on IntegerSet objects whose range end points are unbounded
symbolic integers.  The number of ranges per operand is a grid parameter (shape bound, stated in
the evidence); for each shape the obligations hold for ALL integer end points: the result is
canonical and, for an arbitrary (skolem) integer x, x is in the result's view iff the set-algebra
combination of the operands' views says so.  Because the shape is bounded these obligations are
reported as shape-bounded (not counted as proved without bound).
"""
import itertools
import z3
from pyvc.engine import Contract, make_value
from pyvc.spec import and_, or_, not_, implies, iff, tier, ite
from pyvc.sym import SymInt, SymBool, ctx, mkb
from pyvc import sym as S

M = "ppci.utils.integer_set"
MAXN = 2 if tier() == "quick" else 3


def inview(ranges, x):
    cs = [and_(lo <= x, x <= hi) for (lo, hi) in ranges]
    if not cs:
        return False
    return or_(*cs)


def canonical(ranges):
    out = []
    rs = list(ranges)
    for i, (lo, hi) in enumerate(rs):
        out.append(("range %d is not empty (lo <= hi)" % i, lo <= hi))
        if i:
            out.append(("range %d starts after a gap: hi_%d + 1 < lo_%d" % (i, i - 1, i), rs[i - 1][1] + 1 < lo))
    return out


def _mk_set(c, name, n):
    from ppci.utils.integer_set import IntegerSet
    rs = []
    vals = {}
    for i in range(n):
        lo = make_value("int", "%s_lo%d" % (name, i), c)
        hi = make_value("int", "%s_hi%d" % (name, i), c)
        vals["%s_lo%d" % (name, i)] = lo
        vals["%s_hi%d" % (name, i)] = hi
        rs.append((lo, hi))
    s = IntegerSet()
    s.ranges = tuple(rs)
    return s, vals


def _set_from(v, name, n):
    from ppci.utils.integer_set import IntegerSet
    s = IntegerSet()
    s.ranges = tuple((v["%s_lo%d" % (name, i)], v["%s_hi%d" % (name, i)]) for i in range(n))
    return s


def _mk_binop(c, g):
    a, va = _mk_set(c, "a", g["n"])
    b, vb = _mk_set(c, "b", g["m"])
    x = make_value("int", "x", c)
    inputs = dict(va)
    inputs.update(vb)
    inputs["x"] = x
    env = dict(inputs)
    env.update({"A": a, "B": b})
    return {"args": [a, b], "env": env, "inputs": inputs}


def _replay_binop(g, v):
    a, b = _set_from(v, "a", g["n"]), _set_from(v, "b", g["m"])
    env = dict(v)
    env.update({"A": a, "B": b})
    return {"args": [a, b], "env": env}


def _pre_binop(e):
    return [c for _, c in canonical(e.A.ranges)] + [c for _, c in canonical(e.B.ranges)]


OPS = {
    "union": lambda a, b: or_(a, b),
    "intersection": lambda a, b: and_(a, b),
    "difference": lambda a, b: and_(a, not_(b)),
    "symmetric_difference": lambda a, b: or_(and_(a, not_(b)), and_(b, not_(a))),
}


def _binop_post(e):
    from ppci.utils.integer_set import IntegerSet
    r = e.result
    out = [("result is an IntegerSet", isinstance(r, IntegerSet))]
    if not isinstance(r, IntegerSet):
        return out
    out += [("result canonical: " + n, c) for n, c in canonical(r.ranges)]
    ina, inb = inview(e.A.ranges, e.x), inview(e.B.ranges, e.x)
    out.append(("x in result <=> x in (A %s B), for an arbitrary integer x" % e.op, iff(inview(r.ranges, e.x), OPS[e.op](ina, inb))))
    out.append(("operands are not modified", and_(*([True] + [and_(p[0] == q[0], p[1] == q[1]) for p, q in
                                                          zip(list(e.A.ranges) + list(e.B.ranges), e.ranges0)])) if len(e.ranges0) == len(e.A.ranges) + len(e.B.ranges) else False))
    return out


def _binop_call(fn, env, args, kwargs):
    env["ranges0"] = list(env.A.ranges) + list(env.B.ranges)
    return fn(env.A, env.B)


def _points(n, m, rnd):
    """sample operand pairs with touching / overlapping / nested ranges"""
    out = []
    for _ in range(60):
        def mk(k):
            rs = []
            cur = rnd.randrange(-3, 3)
            for _ in range(k):
                lo = cur + rnd.choice([2, 2, 3, 5])
                hi = lo + rnd.choice([0, 0, 1, 3])
                rs.append((lo, hi))
                cur = hi
            return rs
        a, b = mk(n), mk(m)
        d = {"x": rnd.randrange(-2, 25)}
        for i, (lo, hi) in enumerate(a):
            d["a_lo%d" % i], d["a_hi%d" % i] = lo, hi
        for i, (lo, hi) in enumerate(b):
            d["b_lo%d" % i], d["b_hi%d" % i] = lo, hi
        out.append(d)
    return out


CONTRACTS = []
for _op in OPS:
    CONTRACTS.append(Contract(
        "%s:IntegerSet.%s" % (M, _op), "C33", label="%s:IntegerSet.%s [shape-bounded operands]" % (M, _op),
        # symmetric_difference runs difference twice and union once: 3 x 3 ranges exceeds the path budget (proved unbounded below anyway)
        grid=[{"n": n, "m": m, "op": _op} for n in range(MAXN + 1) for m in range(MAXN + 1) if not (_op == "symmetric_difference" and n * m > 6)],
        make=_mk_binop, replay_args=_replay_binop, call=_binop_call, sample_inputs=lambda g, rnd: _points(g["n"], g["m"], rnd),
        requires=_pre_binop, ensures=_binop_post))


# ---- membership, cardinality, equality ------------------------------------------------------------
def _mk_un(c, g):
    a, va = _mk_set(c, "a", g["n"])
    x = make_value("int", "x", c)
    inputs = dict(va)
    inputs["x"] = x
    env = dict(inputs)
    env["A"] = a
    return {"args": [a], "env": env, "inputs": inputs}


def _replay_un(g, v):
    a = _set_from(v, "a", g["n"])
    env = dict(v)
    env["A"] = a
    return {"args": [a], "env": env}


_UN_SAMPLES = lambda g, rnd: [{k: v for k, v in d.items() if not k.startswith("b_")} for d in _points(g["n"], 0, rnd)]
NMAX1 = 3 if tier() == "quick" else 5

CONTRACTS.append(Contract(
    M + ":IntegerSet.contains", "C33", label=M + ":IntegerSet.contains [shape-bounded]", grid=[{"n": n} for n in range(NMAX1 + 1)],
    make=_mk_un, replay_args=_replay_un, sample_inputs=_UN_SAMPLES, call=lambda fn, env, a, k: fn(env.A, env.x),
    requires=lambda e: [c for _, c in canonical(e.A.ranges)],
    ensures=lambda e: [("contains(x) <=> x in view", iff(e.result, inview(e.A.ranges, e.x)))]))

CONTRACTS.append(Contract(
    M + ":IntegerSet.__contains__", "C33", label=M + ":IntegerSet.__contains__ [shape-bounded]", grid=[{"n": n} for n in range(3)],
    make=_mk_un, replay_args=_replay_un, sample_inputs=_UN_SAMPLES, call=lambda fn, env, a, k: fn(env.A, env.x),
    requires=lambda e: [c for _, c in canonical(e.A.ranges)],
    ensures=lambda e: [("(x in S) <=> x in view", iff(e.result, inview(e.A.ranges, e.x)))]))


def _card(ranges):
    t = 0
    for lo, hi in ranges:
        t = t + (hi - lo + 1)
    return t


for _t in ("cardinality", "__len__"):
    CONTRACTS.append(Contract(
        "%s:IntegerSet.%s" % (M, _t), "C33", label="%s:IntegerSet.%s [shape-bounded]" % (M, _t), grid=[{"n": n} for n in range(NMAX1 + 1)],
        make=_mk_un, replay_args=_replay_un, sample_inputs=_UN_SAMPLES, call=lambda fn, env, a, k: fn(env.A),
        requires=lambda e: [c for _, c in canonical(e.A.ranges)],
        ensures=lambda e: [("cardinality == sum of (hi - lo + 1) over the disjoint ranges", e.result == _card(e.A.ranges))]))


def _eq_post(e):
    pts = []
    for lo, hi in list(e.A.ranges) + list(e.B.ranges):
        pts += [lo, hi, lo - 1, hi + 1]
    same_at = [iff(inview(e.A.ranges, p), inview(e.B.ranges, p)) for p in pts]
    same_all = and_(*same_at) if same_at else True
    return [("A == B  =>  same view at an arbitrary x", implies(e.result, iff(inview(e.A.ranges, e.x), inview(e.B.ranges, e.x)))),
            ("A != B  =>  the views differ at an end point or a neighbour of an end point (canonical forms are unique)",
             implies(not_(e.result), not_(same_all)))]


CONTRACTS.append(Contract(
    M + ":IntegerSet.__eq__", "C33", label=M + ":IntegerSet.__eq__ [shape-bounded operands]",
    grid=[{"n": n, "m": m} for n in range(MAXN + 1) for m in range(MAXN + 1)],
    make=_mk_binop, replay_args=_replay_binop, call=lambda fn, env, a, k: fn(env.A, env.B), sample_inputs=lambda g, rnd: _points(g["n"], g["m"], rnd),
    requires=_pre_binop, ensures=_eq_post))


# ---- construction -----------------------------------------------------------------------------------
def _mk_init(c, g):
    vals = {}
    items = []
    for i, kind in enumerate(g["kinds"]):
        if kind == "i":
            v = make_value("int", "v%d" % i, c)
            vals["v%d" % i] = v
            items.append(v)
        else:
            lo = make_value("int", "lo%d" % i, c)
            hi = make_value("int", "hi%d" % i, c)
            vals["lo%d" % i], vals["hi%d" % i] = lo, hi
            items.append((lo, hi))
    x = make_value("int", "x", c)
    vals["x"] = x
    env = dict(vals)
    env["items"] = items
    return {"args": [], "env": env, "inputs": vals}


def _replay_init(g, v):
    items = []
    for i, kind in enumerate(g["kinds"]):
        items.append(v["v%d" % i] if kind == "i" else (v["lo%d" % i], v["hi%d" % i]))
    env = dict(v)
    env["items"] = items
    return {"args": [], "env": env}


def _init_call(fn, env, args, kwargs):
    from ppci.utils.integer_set import IntegerSet
    return IntegerSet(*env["items"])


def _init_post(e):
    r = e.result
    want = []
    for it in e["items"]:
        if isinstance(it, tuple):
            want.append(and_(it[0] <= e.x, e.x <= it[1]))
        else:
            want.append(e.x == it)
    w = or_(*want) if want else False
    return [("result canonical: " + n, c) for n, c in canonical(r.ranges)] + \
           [("x in IntegerSet(*values) <=> x is one of the ints or inside one of the (non-empty) ranges", iff(inview(r.ranges, e.x), w))]


def _init_samples(g, rnd):
    out = []
    for _ in range(40):
        d = {"x": rnd.randrange(-2, 14)}
        for i, kind in enumerate(g["kinds"]):
            if kind == "i":
                d["v%d" % i] = rnd.randrange(0, 12)
            else:
                lo = rnd.randrange(0, 12)
                d["lo%d" % i], d["hi%d" % i] = lo, lo + rnd.choice([-1, 0, 0, 1, 2, 4])
        out.append(d)
    return out


_KINDS = [()] + [k for n in range(1, (3 if tier() == "quick" else 4) + 1) for k in itertools.product("it", repeat=n)]
CONTRACTS.append(Contract(
    M + ":IntegerSet.__init__", "C33", label=M + ":IntegerSet.__init__ + merge_overlapping_intervals [shape-bounded argument lists]",
    grid=[{"kinds": k} for k in _KINDS], make=_mk_init, replay_args=_replay_init, call=_init_call, sample_inputs=_init_samples,
    ensures=_init_post))

BOUNDED_LABELS = [c.label for c in CONTRACTS]
BOUNDS_TEXT = ("binary operations and __eq__: every pair of operand shapes with 0..%d ranges each; contains / cardinality: 0..%d ranges; "
               "__init__: every argument list of up to %d ints / (lo, hi) tuples; all end points are unbounded symbolic integers" % (
                   MAXN, NMAX1, 3 if tier() == "quick" else 4))
LEVEL = "exploration"
ASSUMED = ["constructor contract used by the unbounded proofs: IntegerSet(*ranges) is canonical and x in it <=> x in one of the given ranges (checked shape-bounded only)",
           "T4 bisect.bisect on a sequence sorted by first component returns the partition index (pyvc.models.bisect_proxy)",
           "bisect.bisect, sorted, filter, max, min run as the real CPython code on proxies in the shape-bounded part (comparisons fork paths)",
           "|view| == sum of range sizes uses that canonical ranges are pairwise disjoint (finite-set arithmetic, T5)"]
NOT_COVERED = ["the constructor (IntegerSet.__init__ + merge_overlapping_intervals) for argument lists longer than the shape bound: its contract is ASSUMED by the unbounded "
               "proofs of intersection / difference / union and checked shape-bounded only", "__iter__ (enumeration of every member)", "__eq__ beyond the shape bound"]


# ================= deductive part: ranges of ANY length (pair-sequence proxy over arrays) =====================
from pyvc.engine import Loop
from pyvc import models as MD
from pyvc.sym import as_z3_int, mk


def _canonical_axioms(ps):
    a, b = z3.Ints("cn!a cn!b")
    return [z3.ForAll([a], z3.Implies(z3.And(a >= 0, a < ps.n), z3.Select(ps.lo, a) <= z3.Select(ps.hi, a))),
            z3.ForAll([a, b], z3.Implies(z3.And(a >= 0, a < b, b < ps.n), z3.Select(ps.hi, a) + 1 < z3.Select(ps.lo, b)))]


def _setup_bisect(g):
    import ppci.utils.integer_set as m
    old = m.bisect
    m.bisect = MD.bisect_proxy

    def undo():
        m.bisect = old
    return undo


def _mk_unb(c, g):
    from ppci.utils.integer_set import IntegerSet
    s = IntegerSet()
    ps = MD.SymPairSeq("R")
    s.ranges = ps
    x = make_value("int", "x", c)
    return {"args": [s], "env": {"S": s, "ps": ps, "x": x}, "inputs": {"x": x}}


def _unb_replay(g, v):
    from ppci.utils.integer_set import IntegerSet
    s = IntegerSet(*[tuple(r) for r in v.get("ranges", [])])
    return {"args": [s], "env": {"S": s, "ps": None, "x": v["x"], "concrete": list(s.ranges)}}


def _unb_samples(g, rnd):
    out = []
    for n in (0, 1, 2, 3, 4, 5, 7):
        rs = []
        cur = rnd.randrange(-5, 5)
        for _ in range(n):
            lo = cur + rnd.choice([2, 3, 5])
            hi = lo + rnd.choice([0, 0, 1, 4])
            rs.append([lo, hi])
            cur = hi
        for x in ([r[0] for r in rs] + [r[1] for r in rs] + [r[1] + 1 for r in rs] + [r[0] - 1 for r in rs] + [0])[:12]:
            out.append({"ranges": rs, "x": x})
    return out


def _contains_post(e):
    if e.ps is None:
        want = any(lo <= e.x <= hi for lo, hi in e.concrete)
        return [("contains(x) <=> x lies in one of the ranges", bool(e.result) == want)]
    ps = e.ps
    x = as_z3_int(e.x)
    j = z3.Int("cv!j")
    j0 = z3.Int(ctx().fresh_name("j0"))
    exists = z3.Exists([j], z3.And(j >= 0, j < ps.n, z3.Select(ps.lo, j) <= x, x <= z3.Select(ps.hi, j)))
    at_j0 = z3.And(j0 >= 0, j0 < ps.n, z3.Select(ps.lo, j0) <= x, x <= z3.Select(ps.hi, j0))
    return [("contains(x) => x lies in some range", implies(e.result, mkb(exists))),
            ("x lies in range j0 (arbitrary j0) => contains(x)", implies(mkb(at_j0), e.result))]


for _t in ("contains", "__contains__"):
    CONTRACTS.append(Contract(
        "%s:IntegerSet.%s" % (M, _t), "C33", label="%s:IntegerSet.%s (ranges of any length)" % (M, _t), modules=[M], setup=_setup_bisect,
        make=_mk_unb, replay_args=_unb_replay, sample_inputs=_unb_samples, call=lambda fn, env, a, k: fn(env.S, env.x),
        requires=lambda e: _canonical_axioms(e.ps) if e.ps is not None else [],
        ensures=_contains_post))

# cardinality: loop invariant over the prefix sum (recursive spec function over the arrays)
_CS = z3.RecFunction("card_prefix", z3.ArraySort(z3.IntSort(), z3.IntSort()), z3.ArraySort(z3.IntSort(), z3.IntSort()), z3.IntSort(), z3.IntSort())
_A, _B, _K = z3.Array("cs!lo", z3.IntSort(), z3.IntSort()), z3.Array("cs!hi", z3.IntSort(), z3.IntSort()), z3.Int("cs!k")
z3.RecAddDefinition(_CS, [_A, _B, _K], z3.If(_K <= 0, z3.IntVal(0), _CS(_A, _B, _K - 1) + z3.Select(_B, _K - 1) - z3.Select(_A, _K - 1) + 1))


def _card_post(e):
    if e.ps is None:
        return [("cardinality == sum of (hi - lo + 1)", e.result == sum(hi - lo + 1 for lo, hi in e.concrete))]
    return [("cardinality == sum over all ranges of (hi - lo + 1)", e.result == mk(_CS(e.ps.lo, e.ps.hi, e.ps.n)))]


for _t in ("cardinality",):
    CONTRACTS.append(Contract(
        "%s:IntegerSet.%s" % (M, _t), "C33", label="%s:IntegerSet.%s (ranges of any length)" % (M, _t), modules=[M],
        make=_mk_unb, replay_args=_unb_replay, sample_inputs=_unb_samples, call=lambda fn, env, a, k: fn(env.S),
        requires=lambda e: _canonical_axioms(e.ps) if e.ps is not None else [],
        ensures=_card_post,
        loops={0: Loop(havoc={"total": "int", "it0__": ("object", MD.havoc_pair_iter)},
                       invariant=lambda e: [("total == sum of the sizes of the ranges visited so far",
                                             e.total == mk(_CS(e.it0__.seq.lo, e.it0__.seq.hi, as_z3_int(e.it0__.pos))))],
                       decreases=lambda e: mk(e.it0__.seq.n - as_z3_int(e.it0__.pos)))} if _t == "cardinality" else None))

LEVEL = "proof"


# ---- intersection / difference for operands of ANY length (loop invariants A.5 / A.6; the constructor is an assumed,
# shape-bounded-checked contract: IntegerSet(*ranges) is canonical and denotes the union of the given ranges) ------------
def _stub_integerset(real_cls, x0):
    def IntegerSetSpec(*args):
        if len(args) == 1 and isinstance(args[0], MD.StarOf):
            lst = args[0].lst
            s = real_cls()
            ps = MD.SymPairSeq(ctx().fresh_name("res"))
            s.ranges = ps
            c = ctx()
            for ax in _canonical_axioms(ps):
                c.assume(ax)
            # contract of the constructor (instance at the skolem point x0): the result denotes the union of the given pairs
            c.assume(MD.in_view(x0, ps) == MD.in_view(x0, lst))
            return s
        return real_cls(*args)
    return IntegerSetSpec


def _setup_algebra(g):
    import ppci.utils.integer_set as m
    old = (m.bisect, m.IntegerSet)
    m.bisect = MD.bisect_proxy

    def undo():
        m.bisect, m.IntegerSet = old
    return undo


def _mk_alg(c, g):
    import ppci.utils.integer_set as m
    real = m.IntegerSet if isinstance(m.IntegerSet, type) else m.IntegerSet.__wrapped_cls__
    x0 = make_value("int", "x0", c)
    stub = _stub_integerset(real, x0)
    stub.__wrapped_cls__ = real
    m.IntegerSet = stub
    a, b = real(), real()
    A, Bq = MD.SymPairSeq("A"), MD.SymPairSeq("B")
    a.ranges, b.ranges = A, Bq
    return {"args": [a, b], "env": {"A": A, "B": Bq, "a": a, "b": b, "x0": x0}, "inputs": {"x0": x0}}


def _alg_pre(e):
    return _canonical_axioms(e.A) + _canonical_axioms(e.B)


def _link(item, it, seq):
    """item is the element last fetched from iterator `it` over `seq` (None iff exhausted)"""
    pos = as_z3_int(it.pos)
    if item is None:
        return mkb(pos == seq.n)
    return mkb(z3.And(pos >= 1, pos <= seq.n, as_z3_int(item[0]) == z3.Select(seq.lo, pos - 1), as_z3_int(item[1]) == z3.Select(seq.hi, pos - 1)))


def _cur(item, it, seq):
    return seq.n if item is None else as_z3_int(it.pos) - 1


def _havoc_item(cur, c, name):
    b = z3.Bool(c.fresh_name(name + ".none"))
    if c.decide(b):
        return None
    return (SymInt(z3.Int(c.fresh_name(name + ".lo"))), SymInt(z3.Int(c.fresh_name(name + ".hi"))))


def _inter_inv(e):
    A, Bq = e.old.A, e.old.B
    x0 = e.old.x0
    ia, jb = _cur(e.r, e.i, A), _cur(e.s, e.j, Bq)
    lhs = z3.Or(MD.in_view(x0, e.ranges), z3.And(MD.in_view(x0, A, ia), MD.in_view(x0, Bq, jb)))
    rhs = z3.And(MD.in_view(x0, A), MD.in_view(x0, Bq))
    return [("r is the element last fetched from self.ranges (None iff exhausted)", _link(e.r, e.i, A)),
            ("s is the element last fetched from other.ranges (None iff exhausted)", _link(e.s, e.j, Bq)),
            ("emitted ranges + what the remaining suffixes can still contribute => x0 in both operands", mkb(z3.Implies(lhs, rhs))),
            ("x0 in both operands => already emitted or still obtainable from the remaining suffixes", mkb(z3.Implies(rhs, lhs)))]


def _canonical_obligations(R):
    lo, hi, n = MD.pairs_of(R)
    a, b = z3.Ints("co!a co!b")
    return [("result canonical: every range non-empty", mkb(z3.ForAll([a], z3.Implies(z3.And(a >= 0, a < n), z3.Select(lo, a) <= z3.Select(hi, a))))),
            ("result canonical: sorted, non-overlapping, non-adjacent (hi_a + 1 < lo_b for a < b)",
             mkb(z3.ForAll([a, b], z3.Implies(z3.And(a >= 0, a < b, b < n), z3.Select(hi, a) + 1 < z3.Select(lo, b)))))]


def _inter_post(e):
    R = e.result.ranges
    x0 = e.old.x0
    both = z3.And(MD.in_view(x0, e.old.A), MD.in_view(x0, e.old.B))
    return _canonical_obligations(R) + [("x0 in result => x0 in self and in other (arbitrary integer x0)", mkb(z3.Implies(MD.in_view(x0, R), both))),
            ("x0 in self and in other => x0 in result (arbitrary integer x0)", mkb(z3.Implies(both, MD.in_view(x0, R))))]


def _new_list(cur, c, name):
    return MD.SymPairList(name, c)


CONTRACTS.append(Contract(
    M + ":IntegerSet.intersection", "C33", label=M + ":IntegerSet.intersection (operands of any length)", modules=[M], setup=_setup_algebra,
    make=_mk_alg, requires=_alg_pre, ensures=_inter_post,
    loops={0: Loop(havoc={"ranges": ("object", _new_list), "i": ("object", MD.havoc_pair_iter), "j": ("object", MD.havoc_pair_iter),
                          "r": ("object", _havoc_item), "s": ("object", _havoc_item)},
                   invariant=_inter_inv,
                   decreases=lambda e: mk((e.old.A.n - as_z3_int(e.i.pos)) + (e.old.B.n - as_z3_int(e.j.pos)) + (0 if e.r is None else 1) + (0 if e.s is None else 1)))}))


def _diff_inv(e):
    A, Bq = e.old.A, e.old.B
    x0 = as_z3_int(e.old.x0)
    pi = as_z3_int(e.i.pos)
    jb = _cur(e.s, e.j, Bq)
    out = []
    if e.r is None:
        out.append(("r is None iff self.ranges is exhausted", mkb(pi == A.n)))
        rest = z3.BoolVal(False)
    else:
        r0, r1 = as_z3_int(e.r[0]), as_z3_int(e.r[1])
        out.append(("r is the not yet handled tail of the range last fetched from self.ranges",
                    mkb(z3.And(pi >= 1, pi <= A.n, z3.Select(A.lo, pi - 1) <= r0, r0 <= r1, r1 == z3.Select(A.hi, pi - 1)))))
        b = z3.Int("df!b")
        out.append(("every range of other before the current one ends below r",
                    mkb(z3.ForAll([b], z3.Implies(z3.And(b >= 0, b < jb), z3.Select(Bq.hi, b) < r0)))))
        rest = z3.Or(z3.And(r0 <= x0, x0 <= r1), MD.in_view(x0, A, pi))
    out.append(("s is the element last fetched from other.ranges (None iff exhausted)", _link(e.s, e.j, Bq)))
    lhs = z3.Or(MD.in_view(x0, e.ranges), z3.And(rest, z3.Not(MD.in_view(x0, Bq, jb))))
    rhs = z3.And(MD.in_view(x0, A), z3.Not(MD.in_view(x0, Bq)))
    out += [("emitted ranges + (rest of self minus rest of other) => x0 in self and not in other", mkb(z3.Implies(lhs, rhs))),
            ("x0 in self and not in other => already emitted or still obtainable", mkb(z3.Implies(rhs, lhs)))]
    return out


def _diff_post(e):
    R = e.result.ranges
    x0 = e.old.x0
    want = z3.And(MD.in_view(x0, e.old.A), z3.Not(MD.in_view(x0, e.old.B)))
    return _canonical_obligations(R) + [("x0 in result => x0 in self and not in other (arbitrary integer x0)", mkb(z3.Implies(MD.in_view(x0, R), want))),
            ("x0 in self and not in other => x0 in result (arbitrary integer x0)", mkb(z3.Implies(want, MD.in_view(x0, R))))]


CONTRACTS.append(Contract(
    M + ":IntegerSet.difference", "C33", label=M + ":IntegerSet.difference (operands of any length)", modules=[M], setup=_setup_algebra,
    make=_mk_alg, requires=_alg_pre, ensures=_diff_post,
    loops={0: Loop(havoc={"ranges": ("object", _new_list), "i": ("object", MD.havoc_pair_iter), "j": ("object", MD.havoc_pair_iter),
                          "r": ("object", _havoc_item), "s": ("object", _havoc_item)},
                   invariant=_diff_inv)}))


# union: concatenation of the two range tuples handed to the constructor (constructor contract as above)
def _union_post(e):
    R = e.result.ranges
    x0 = e.old.x0
    either = z3.Or(MD.in_view(x0, e.old.A), MD.in_view(x0, e.old.B))
    return _canonical_obligations(R) + [("x0 in result => x0 in self or in other (arbitrary integer x0)", mkb(z3.Implies(MD.in_view(x0, R), either))),
            ("x0 in self or in other => x0 in result (arbitrary integer x0)", mkb(z3.Implies(either, MD.in_view(x0, R))))]


CONTRACTS.append(Contract(
    M + ":IntegerSet.union", "C33", label=M + ":IntegerSet.union (operands of any length)", modules=[M], setup=_setup_algebra,
    make=_mk_alg, requires=_alg_pre, ensures=_union_post))


# symmetric_difference: verified modularly against the contracts of difference and union (callees replaced by stubs)
def _mk_symdiff(c, g):
    import ppci.utils.integer_set as m
    made = _mk_alg(c, g)
    real = m.IntegerSet.__wrapped_cls__
    x0 = made["env"]["x0"]

    def _fresh_set(cond):
        s = real()
        ps = MD.SymPairSeq(ctx().fresh_name("stub"))
        s.ranges = ps
        for ax in _canonical_axioms(ps):
            ctx().assume(ax)
        ctx().assume(MD.in_view(x0, ps) == cond)
        return s

    def difference(self, other):
        return _fresh_set(z3.And(MD.in_view(x0, self.ranges), z3.Not(MD.in_view(x0, other.ranges))))

    def union(self, other):
        return _fresh_set(z3.Or(MD.in_view(x0, self.ranges), MD.in_view(x0, other.ranges)))
    made["env"]["saved"] = (real.difference, real.union)
    real.difference, real.union = difference, union
    return made


def _setup_symdiff(g):
    import ppci.utils.integer_set as m
    real = m.IntegerSet
    old = (m.bisect, m.IntegerSet, real.difference, real.union)
    m.bisect = MD.bisect_proxy

    def undo():
        m.bisect, m.IntegerSet = old[0], old[1]
        real.difference, real.union = old[2], old[3]
    return undo


def _symdiff_post(e):
    R = e.result.ranges
    x0 = e.old.x0
    ina, inb = MD.in_view(x0, e.old.A), MD.in_view(x0, e.old.B)
    return _canonical_obligations(R) + [("x0 in result <=> x0 in exactly one of self, other (arbitrary integer x0)", mkb(MD.in_view(x0, R) == z3.Xor(ina, inb)))]


CONTRACTS.append(Contract(
    M + ":IntegerSet.symmetric_difference", "C33", label=M + ":IntegerSet.symmetric_difference (operands of any length; callees by contract)",
    modules=[M], setup=_setup_symdiff, make=_mk_symdiff, requires=_alg_pre, ensures=_symdiff_post))


# ---- merge_overlapping_intervals for input lists of ANY length (generator: yields become appends to a ghost list) --------------
def _merge_on_yield(fg, value, c, old):
    fg.Y.append(value)


def _mk_merge(c, g):
    R = MD.SymPairSeq("R")
    x0 = make_value("int", "x0", c)
    return {"args": [R], "env": {"R": R, "x0": x0}, "inputs": {"x0": x0}}


def _merge_pre(e):
    R = e.R
    a, b = z3.Ints("mp!a mp!b")
    return [z3.ForAll([a], z3.Implies(z3.And(a >= 0, a < R.n), z3.Select(R.lo, a) <= z3.Select(R.hi, a))),
            z3.ForAll([a, b], z3.Implies(z3.And(a >= 0, a < b, b < R.n), z3.Select(R.lo, a) <= z3.Select(R.lo, b)))]


def _y_canonical(Y):
    return [(n, g) for n, g in [(x[0].replace("result", "yielded ranges"), x[1]) for x in _canonical_obligations(Y)]]


def _merge_inv(e):
    R = e.old.R
    x0 = as_z3_int(e.old.x0)
    Y = e.fg.Y
    k = as_z3_int(e.it0__.pos) + 1          # index in `ranges` of the next element to look at
    r0, r1 = as_z3_int(e.r[0]), as_z3_int(e.r[1])
    a = z3.Int("mi!a")
    q = z3.Int("mi!q")
    return _y_canonical(Y) + [
        ("r is a non-empty range", mkb(r0 <= r1)),
        ("1 <= next index <= len(ranges)", mkb(z3.And(k >= 1, k <= R.n))),
        ("every yielded range ends at least two below r", mkb(z3.ForAll([a], z3.Implies(z3.And(a >= 0, a < Y.n), z3.Select(Y.hi, a) + 1 < r0)))),
        ("r starts at or before every range still to come", mkb(z3.ForAll([q], z3.Implies(z3.And(q >= k, q < R.n), r0 <= z3.Select(R.lo, q))))),
        ("yielded ranges and r => x0 in the ranges looked at so far", mkb(z3.Implies(z3.Or(MD.in_view(x0, Y), z3.And(r0 <= x0, x0 <= r1)), MD.in_view(x0, R, 0, k)))),
        ("x0 in the ranges looked at so far => in a yielded range or in r", mkb(z3.Implies(MD.in_view(x0, R, 0, k), z3.Or(MD.in_view(x0, Y), z3.And(r0 <= x0, x0 <= r1))))),
    ]


def _merge_post(e):
    Y = e.fg.Y
    x0 = e.old.x0
    return _y_canonical(Y) + [
        ("x0 in a yielded range => x0 in an input range (arbitrary integer x0)", mkb(z3.Implies(MD.in_view(x0, Y), MD.in_view(x0, e.old.R)))),
        ("x0 in an input range => x0 in a yielded range (arbitrary integer x0)", mkb(z3.Implies(MD.in_view(x0, e.old.R), MD.in_view(x0, Y))))]


def _havoc_pair(cur, c, name):
    return (SymInt(z3.Int(c.fresh_name(name + ".lo"))), SymInt(z3.Int(c.fresh_name(name + ".hi"))))


CONTRACTS.append(Contract(
    M + ":merge_overlapping_intervals", "C33", label=M + ":merge_overlapping_intervals (input of any length)", modules=[M],
    make=_mk_merge, requires=_merge_pre, ensures=_merge_post,
    fghost_init=lambda old: {"Y": MD.SymPairList.empty("Y")}, on_yield=_merge_on_yield,
    loops={0: Loop(havoc={"r": ("object", _havoc_pair), "it0__": ("object", MD.havoc_pair_iter)},
                   fghost_havoc={"Y": ("object", lambda cur, c, name: MD.SymPairList(name, c))},
                   invariant=_merge_inv,
                   decreases=lambda e: mk(e.it0__.seq.n - as_z3_int(e.it0__.pos)))}))



# ---- native replay for the unbounded contracts (concrete sets; the same statements evaluated on the real code) ----------------
def _native_sets(g, v):
    from ppci.utils.integer_set import IntegerSet
    a = IntegerSet(*[tuple(r) for r in v.get("a", [])])
    b = IntegerSet(*[tuple(r) for r in v.get("b", [])])
    return {"args": [a, b], "env": {"native": True, "na": list(a.ranges), "nb": list(b.ranges), "x0": v["x0"], "A": None, "B": None}}


def _native_samples(g, rnd):
    out = []
    for _ in range(200):
        def mk(k):
            rs, cur = [], rnd.randrange(-4, 4)
            for _ in range(k):
                lo = cur + rnd.choice([2, 2, 3, 6])
                hi = lo + rnd.choice([0, 0, 1, 5, 9])
                rs.append([lo, hi])
                cur = hi
            return rs
        a, b = mk(rnd.randrange(0, 7)), mk(rnd.randrange(0, 7))
        pts = [p for r in a + b for p in (r[0], r[1], r[0] - 1, r[1] + 1)] or [0]
        out.append({"a": a, "b": b, "x0": rnd.choice(pts)})
    return out


def _native_post(op):
    def post(e):
        r = list(e.result.ranges)
        ina = any(lo <= e.x0 <= hi for lo, hi in e.na)
        inb = any(lo <= e.x0 <= hi for lo, hi in e.nb)
        want = {"intersection": ina and inb, "difference": ina and not inb, "union": ina or inb, "symmetric_difference": ina != inb}[op]
        canon = all(lo <= hi for lo, hi in r) and all(r[i][1] + 1 < r[i + 1][0] for i in range(len(r) - 1))
        return [("result canonical", canon), ("x0 in result <=> set-algebra combination of the operands", any(lo <= e.x0 <= hi for lo, hi in r) == want)]
    return post


for _ct in CONTRACTS:
    for _op in ("intersection", "difference", "union", "symmetric_difference"):
        if _ct.label.startswith("%s:IntegerSet.%s (operands of any length" % (M, _op)):
            _sym_post = _ct.ensures
            _ct.ensures = (lambda sp, npost: lambda e: npost(e) if e.get("native") else sp(e))(_sym_post, _native_post(_op))
            _sym_pre = _ct.requires
            _ct.requires = (lambda sp: lambda e: [] if e.get("native") else sp(e))(_sym_pre)
            _ct.replay_args = _native_sets
            _ct.sample_inputs = _native_samples
