"""C33 -- IntegerSet (ppci/utils/integer_set.py).

Abstract view  view(S) = {x | exists i. lo_i <= x <= hi_i};  canonical(S): every lo_i <= hi_i and
hi_i + 1 < lo_(i+1) (sorted, non-overlapping, non-adjacent).

Every operation runs as the REAL code on IntegerSet objects whose range end points are unbounded
symbolic integers.  The number of ranges per operand is a grid parameter (shape bound, stated in
the evidence); for each shape the obligations hold for ALL integer end points: the result is
canonical and, for an arbitrary (skolem) integer x, x is in the result's view iff the set-algebra
combination of the operands' views says so.  Because the shape is bounded these obligations are
reported as shape-bounded (not counted as proved without bound).
"""
import itertools
import z3
from pyvc.engine import Contract, make_value
from pyvc.spec import and_, or_, not_, implies, iff, tier, ite
from pyvc.sym import SymInt, SymBool, ctx, mkb
from pyvc import sym as S

M = "ppci.utils.integer_set"
MAXN = 2 if tier() == "quick" else 3


def inview(ranges, x):
    cs = [and_(lo <= x, x <= hi) for (lo, hi) in ranges]
    if not cs:
        return False
    return or_(*cs)


def canonical(ranges):
    out = []
    rs = list(ranges)
    for i, (lo, hi) in enumerate(rs):
        out.append(("range %d is not empty (lo <= hi)" % i, lo <= hi))
        if i:
            out.append(("range %d starts after a gap: hi_%d + 1 < lo_%d" % (i, i - 1, i), rs[i - 1][1] + 1 < lo))
    return out


def _mk_set(c, name, n):
    from ppci.utils.integer_set import IntegerSet
    rs = []
    vals = {}
    for i in range(n):
        lo = make_value("int", "%s_lo%d" % (name, i), c)
        hi = make_value("int", "%s_hi%d" % (name, i), c)
        vals["%s_lo%d" % (name, i)] = lo
        vals["%s_hi%d" % (name, i)] = hi
        rs.append((lo, hi))
    s = IntegerSet()
    s.ranges = tuple(rs)
    return s, vals


def _set_from(v, name, n):
    from ppci.utils.integer_set import IntegerSet
    s = IntegerSet()
    s.ranges = tuple((v["%s_lo%d" % (name, i)], v["%s_hi%d" % (name, i)]) for i in range(n))
    return s


def _mk_binop(c, g):
    a, va = _mk_set(c, "a", g["n"])
    b, vb = _mk_set(c, "b", g["m"])
    x = make_value("int", "x", c)
    inputs = dict(va)
    inputs.update(vb)
    inputs["x"] = x
    env = dict(inputs)
    env.update({"A": a, "B": b})
    return {"args": [a, b], "env": env, "inputs": inputs}


def _replay_binop(g, v):
    a, b = _set_from(v, "a", g["n"]), _set_from(v, "b", g["m"])
    env = dict(v)
    env.update({"A": a, "B": b})
    return {"args": [a, b], "env": env}


def _pre_binop(e):
    return [c for _, c in canonical(e.A.ranges)] + [c for _, c in canonical(e.B.ranges)]


OPS = {
    "union": lambda a, b: or_(a, b),
    "intersection": lambda a, b: and_(a, b),
    "difference": lambda a, b: and_(a, not_(b)),
    "symmetric_difference": lambda a, b: or_(and_(a, not_(b)), and_(b, not_(a))),
}


def _binop_post(e):
    from ppci.utils.integer_set import IntegerSet
    r = e.result
    out = [("result is an IntegerSet", isinstance(r, IntegerSet))]
    if not isinstance(r, IntegerSet):
        return out
    out += [("result canonical: " + n, c) for n, c in canonical(r.ranges)]
    ina, inb = inview(e.A.ranges, e.x), inview(e.B.ranges, e.x)
    out.append(("x in result <=> x in (A %s B), for an arbitrary integer x" % e.op, iff(inview(r.ranges, e.x), OPS[e.op](ina, inb))))
    out.append(("operands are not modified", and_(*([True] + [and_(p[0] == q[0], p[1] == q[1]) for p, q in
                                                          zip(list(e.A.ranges) + list(e.B.ranges), e.ranges0)])) if len(e.ranges0) == len(e.A.ranges) + len(e.B.ranges) else False))
    return out


def _binop_call(fn, env, args, kwargs):
    env["ranges0"] = list(env.A.ranges) + list(env.B.ranges)
    return fn(env.A, env.B)


def _points(n, m, rnd):
    """sample operand pairs with touching / overlapping / nested ranges"""
    out = []
    for _ in range(60):
        def mk(k):
            rs = []
            cur = rnd.randrange(-3, 3)
            for _ in range(k):
                lo = cur + rnd.choice([2, 2, 3, 5])
                hi = lo + rnd.choice([0, 0, 1, 3])
                rs.append((lo, hi))
                cur = hi
            return rs
        a, b = mk(n), mk(m)
        d = {"x": rnd.randrange(-2, 25)}
        for i, (lo, hi) in enumerate(a):
            d["a_lo%d" % i], d["a_hi%d" % i] = lo, hi
        for i, (lo, hi) in enumerate(b):
            d["b_lo%d" % i], d["b_hi%d" % i] = lo, hi
        out.append(d)
    return out


CONTRACTS = []
for _op in OPS:
    CONTRACTS.append(Contract(
        "%s:IntegerSet.%s" % (M, _op), "C33", label="%s:IntegerSet.%s [shape-bounded operands]" % (M, _op),
        grid=[{"n": n, "m": m, "op": _op} for n in range(MAXN + 1) for m in range(MAXN + 1)],
        make=_mk_binop, replay_args=_replay_binop, call=_binop_call, sample_inputs=lambda g, rnd: _points(g["n"], g["m"], rnd),
        requires=_pre_binop, ensures=_binop_post))


# ---- membership, cardinality, equality ------------------------------------------------------------
def _mk_un(c, g):
    a, va = _mk_set(c, "a", g["n"])
    x = make_value("int", "x", c)
    inputs = dict(va)
    inputs["x"] = x
    env = dict(inputs)
    env["A"] = a
    return {"args": [a], "env": env, "inputs": inputs}


def _replay_un(g, v):
    a = _set_from(v, "a", g["n"])
    env = dict(v)
    env["A"] = a
    return {"args": [a], "env": env}


_UN_SAMPLES = lambda g, rnd: [{k: v for k, v in d.items() if not k.startswith("b_")} for d in _points(g["n"], 0, rnd)]
NMAX1 = 3 if tier() == "quick" else 5

CONTRACTS.append(Contract(
    M + ":IntegerSet.contains", "C33", label=M + ":IntegerSet.contains [shape-bounded]", grid=[{"n": n} for n in range(NMAX1 + 1)],
    make=_mk_un, replay_args=_replay_un, sample_inputs=_UN_SAMPLES, call=lambda fn, env, a, k: fn(env.A, env.x),
    requires=lambda e: [c for _, c in canonical(e.A.ranges)],
    ensures=lambda e: [("contains(x) <=> x in view", iff(e.result, inview(e.A.ranges, e.x)))]))

CONTRACTS.append(Contract(
    M + ":IntegerSet.__contains__", "C33", label=M + ":IntegerSet.__contains__ [shape-bounded]", grid=[{"n": n} for n in range(3)],
    make=_mk_un, replay_args=_replay_un, sample_inputs=_UN_SAMPLES, call=lambda fn, env, a, k: fn(env.A, env.x),
    requires=lambda e: [c for _, c in canonical(e.A.ranges)],
    ensures=lambda e: [("(x in S) <=> x in view", iff(e.result, inview(e.A.ranges, e.x)))]))


def _card(ranges):
    t = 0
    for lo, hi in ranges:
        t = t + (hi - lo + 1)
    return t


for _t in ("cardinality", "__len__"):
    CONTRACTS.append(Contract(
        "%s:IntegerSet.%s" % (M, _t), "C33", label="%s:IntegerSet.%s [shape-bounded]" % (M, _t), grid=[{"n": n} for n in range(NMAX1 + 1)],
        make=_mk_un, replay_args=_replay_un, sample_inputs=_UN_SAMPLES, call=lambda fn, env, a, k: fn(env.A),
        requires=lambda e: [c for _, c in canonical(e.A.ranges)],
        ensures=lambda e: [("cardinality == sum of (hi - lo + 1) over the disjoint ranges", e.result == _card(e.A.ranges))]))


def _eq_post(e):
    pts = []
    for lo, hi in list(e.A.ranges) + list(e.B.ranges):
        pts += [lo, hi, lo - 1, hi + 1]
    same_at = [iff(inview(e.A.ranges, p), inview(e.B.ranges, p)) for p in pts]
    same_all = and_(*same_at) if same_at else True
    return [("A == B  =>  same view at an arbitrary x", implies(e.result, iff(inview(e.A.ranges, e.x), inview(e.B.ranges, e.x)))),
            ("A != B  =>  the views differ at an end point or a neighbour of an end point (canonical forms are unique)",
             implies(not_(e.result), not_(same_all)))]


CONTRACTS.append(Contract(
    M + ":IntegerSet.__eq__", "C33", label=M + ":IntegerSet.__eq__ [shape-bounded operands]",
    grid=[{"n": n, "m": m} for n in range(MAXN + 1) for m in range(MAXN + 1)],
    make=_mk_binop, replay_args=_replay_binop, call=lambda fn, env, a, k: fn(env.A, env.B), sample_inputs=lambda g, rnd: _points(g["n"], g["m"], rnd),
    requires=_pre_binop, ensures=_eq_post))


# ---- construction -----------------------------------------------------------------------------------
def _mk_init(c, g):
    vals = {}
    items = []
    for i, kind in enumerate(g["kinds"]):
        if kind == "i":
            v = make_value("int", "v%d" % i, c)
            vals["v%d" % i] = v
            items.append(v)
        else:
            lo = make_value("int", "lo%d" % i, c)
            hi = make_value("int", "hi%d" % i, c)
            vals["lo%d" % i], vals["hi%d" % i] = lo, hi
            items.append((lo, hi))
    x = make_value("int", "x", c)
    vals["x"] = x
    env = dict(vals)
    env["items"] = items
    return {"args": [], "env": env, "inputs": vals}


def _replay_init(g, v):
    items = []
    for i, kind in enumerate(g["kinds"]):
        items.append(v["v%d" % i] if kind == "i" else (v["lo%d" % i], v["hi%d" % i]))
    env = dict(v)
    env["items"] = items
    return {"args": [], "env": env}


def _init_call(fn, env, args, kwargs):
    from ppci.utils.integer_set import IntegerSet
    return IntegerSet(*env["items"])


def _init_post(e):
    r = e.result
    want = []
    for it in e["items"]:
        if isinstance(it, tuple):
            want.append(and_(it[0] <= e.x, e.x <= it[1]))
        else:
            want.append(e.x == it)
    w = or_(*want) if want else False
    return [("result canonical: " + n, c) for n, c in canonical(r.ranges)] + \
           [("x in IntegerSet(*values) <=> x is one of the ints or inside one of the (non-empty) ranges", iff(inview(r.ranges, e.x), w))]


def _init_samples(g, rnd):
    out = []
    for _ in range(40):
        d = {"x": rnd.randrange(-2, 14)}
        for i, kind in enumerate(g["kinds"]):
            if kind == "i":
                d["v%d" % i] = rnd.randrange(0, 12)
            else:
                lo = rnd.randrange(0, 12)
                d["lo%d" % i], d["hi%d" % i] = lo, lo + rnd.choice([-1, 0, 0, 1, 2, 4])
        out.append(d)
    return out


_KINDS = [()] + [k for n in range(1, (3 if tier() == "quick" else 4) + 1) for k in itertools.product("it", repeat=n)]
CONTRACTS.append(Contract(
    M + ":IntegerSet.__init__", "C33", label=M + ":IntegerSet.__init__ + merge_overlapping_intervals [shape-bounded argument lists]",
    grid=[{"kinds": k} for k in _KINDS], make=_mk_init, replay_args=_replay_init, call=_init_call, sample_inputs=_init_samples,
    ensures=_init_post))

BOUNDED_LABELS = [c.label for c in CONTRACTS]
BOUNDS_TEXT = ("binary operations and __eq__: every pair of operand shapes with 0..%d ranges each; contains / cardinality: 0..%d ranges; "
               "__init__: every argument list of up to %d ints / (lo, hi) tuples; all end points are unbounded symbolic integers" % (
                   MAXN, NMAX1, 3 if tier() == "quick" else 4))
LEVEL = "exploration"
ASSUMED = ["bisect.bisect, sorted, filter, max, min run as the real CPython code on proxies (comparisons fork paths)",
           "|view| == sum of range sizes uses that canonical ranges are pairwise disjoint (finite-set arithmetic, T5)"]
NOT_COVERED = ["operands with more ranges than the stated shape bound (the loops of intersection / difference / merge_overlapping_intervals "
               "are not cut at invariants in this revision)", "__iter__ (enumeration of every member)"]


# ================= deductive part: ranges of ANY length (pair-sequence proxy over arrays) =====================
from pyvc.engine import Loop
from pyvc import models as MD
from pyvc.sym import as_z3_int, mk


def _canonical_axioms(ps):
    a, b = z3.Ints("cn!a cn!b")
    return [z3.ForAll([a], z3.Implies(z3.And(a >= 0, a < ps.n), z3.Select(ps.lo, a) <= z3.Select(ps.hi, a))),
            z3.ForAll([a, b], z3.Implies(z3.And(a >= 0, a < b, b < ps.n), z3.Select(ps.hi, a) + 1 < z3.Select(ps.lo, b)))]


def _setup_bisect(g):
    import ppci.utils.integer_set as m
    old = m.bisect
    m.bisect = MD.bisect_proxy

    def undo():
        m.bisect = old
    return undo


def _mk_unb(c, g):
    from ppci.utils.integer_set import IntegerSet
    s = IntegerSet()
    ps = MD.SymPairSeq("R")
    s.ranges = ps
    x = make_value("int", "x", c)
    return {"args": [s], "env": {"S": s, "ps": ps, "x": x}, "inputs": {"x": x}}


def _unb_replay(g, v):
    from ppci.utils.integer_set import IntegerSet
    s = IntegerSet(*[tuple(r) for r in v.get("ranges", [])])
    return {"args": [s], "env": {"S": s, "ps": None, "x": v["x"], "concrete": list(s.ranges)}}


def _unb_samples(g, rnd):
    out = []
    for n in (0, 1, 2, 3, 4, 5, 7):
        rs = []
        cur = rnd.randrange(-5, 5)
        for _ in range(n):
            lo = cur + rnd.choice([2, 3, 5])
            hi = lo + rnd.choice([0, 0, 1, 4])
            rs.append([lo, hi])
            cur = hi
        for x in ([r[0] for r in rs] + [r[1] for r in rs] + [r[1] + 1 for r in rs] + [r[0] - 1 for r in rs] + [0])[:12]:
            out.append({"ranges": rs, "x": x})
    return out


def _contains_post(e):
    if e.ps is None:
        want = any(lo <= e.x <= hi for lo, hi in e.concrete)
        return [("contains(x) <=> x lies in one of the ranges", bool(e.result) == want)]
    ps = e.ps
    x = as_z3_int(e.x)
    j = z3.Int("cv!j")
    j0 = z3.Int(ctx().fresh_name("j0"))
    exists = z3.Exists([j], z3.And(j >= 0, j < ps.n, z3.Select(ps.lo, j) <= x, x <= z3.Select(ps.hi, j)))
    at_j0 = z3.And(j0 >= 0, j0 < ps.n, z3.Select(ps.lo, j0) <= x, x <= z3.Select(ps.hi, j0))
    return [("contains(x) => x lies in some range", implies(e.result, mkb(exists))),
            ("x lies in range j0 (arbitrary j0) => contains(x)", implies(mkb(at_j0), e.result))]


for _t in ("contains", "__contains__"):
    CONTRACTS.append(Contract(
        "%s:IntegerSet.%s" % (M, _t), "C33", label="%s:IntegerSet.%s (ranges of any length)" % (M, _t), modules=[M], setup=_setup_bisect,
        make=_mk_unb, replay_args=_unb_replay, sample_inputs=_unb_samples, call=lambda fn, env, a, k: fn(env.S, env.x),
        requires=lambda e: _canonical_axioms(e.ps) if e.ps is not None else [],
        ensures=_contains_post))

# cardinality: loop invariant over the prefix sum (recursive spec function over the arrays)
_CS = z3.RecFunction("card_prefix", z3.ArraySort(z3.IntSort(), z3.IntSort()), z3.ArraySort(z3.IntSort(), z3.IntSort()), z3.IntSort(), z3.IntSort())
_A, _B, _K = z3.Array("cs!lo", z3.IntSort(), z3.IntSort()), z3.Array("cs!hi", z3.IntSort(), z3.IntSort()), z3.Int("cs!k")
z3.RecAddDefinition(_CS, [_A, _B, _K], z3.If(_K <= 0, z3.IntVal(0), _CS(_A, _B, _K - 1) + z3.Select(_B, _K - 1) - z3.Select(_A, _K - 1) + 1))


def _card_post(e):
    if e.ps is None:
        return [("cardinality == sum of (hi - lo + 1)", e.result == sum(hi - lo + 1 for lo, hi in e.concrete))]
    return [("cardinality == sum over all ranges of (hi - lo + 1)", e.result == mk(_CS(e.ps.lo, e.ps.hi, e.ps.n)))]


for _t in ("cardinality",):
    CONTRACTS.append(Contract(
        "%s:IntegerSet.%s" % (M, _t), "C33", label="%s:IntegerSet.%s (ranges of any length)" % (M, _t), modules=[M],
        make=_mk_unb, replay_args=_unb_replay, sample_inputs=_unb_samples, call=lambda fn, env, a, k: fn(env.S),
        requires=lambda e: _canonical_axioms(e.ps) if e.ps is not None else [],
        ensures=_card_post,
        loops={0: Loop(havoc={"total": "int", "it0__": ("object", MD.havoc_pair_iter)},
                       invariant=lambda e: [("total == sum of the sizes of the ranges visited so far",
                                             e.total == mk(_CS(e.it0__.seq.lo, e.it0__.seq.hi, as_z3_int(e.it0__.pos))))],
                       decreases=lambda e: mk(e.it0__.seq.n - as_z3_int(e.it0__.pos)))} if _t == "cardinality" else None))

LEVEL = "proof"
