"""C22 (slice) -- numeric runtime helpers of the WebAssembly runtime (ppci/wasm/execution/runtime.py)
against the WebAssembly numeric definitions.

Integer helpers (i32/i64 rotl, rotr, clz, ctz, popcnt, extendN_s) are verified MODULARLY: the bitfun
callees are replaced by stubs that check the callee's precondition at the call site and return the
callee's specification (the C39 contracts); those callee contracts are re-verified here for the
widths the runtime uses, so a change inside bitfun fails this check too.
Float -> int helpers (trunc_sat_*, trunc_* for in-range operands) use z3's IEEE-754 theory
(pyvc.symfloat): the operand is an arbitrary double (every f32 value is one).
"""
import z3
from pyvc.engine import Contract, make_value
from pyvc.spec import and_, or_, not_, implies, ite, iff, tier
from pyvc.sym import SymInt, SymBool, ctx, mk, mkb, as_z3_int, as_z3_bool
from pyvc import sym as S
from pyvc import symfloat as SF
from contracts import c39 as B

M = "ppci.wasm.execution.runtime"


# ---- callee stubs derived from the C39 contracts --------------------------------------------------
def _pre(name, cond):
    if S.active():
        ctx().oblige("call-pre@%s" % name, cond)


def _stub_to_unsigned(value, bits):
    return B.umod(value, bits)


def _stub_to_signed(value, bits):
    return B.sext(value, bits)


def _stub_sign_extend(value, bits):
    return B.sext(value, bits)


def _stub_rotr(v, count, bits):
    _pre("rotr: 0 <= v < 2^bits", and_(v >= 0, v < (1 << bits)))
    return B.rotr_spec(v, count, bits)


def _stub_rotl(v, count, bits):
    _pre("rotl: 0 <= v < 2^bits", and_(v >= 0, v < (1 << bits)))
    return B.rotl_spec(v, count, bits)


def _stub_count(ok):
    def f(v, bits):
        c = ctx()
        r = make_value(("small", 0, bits + 1), c.fresh_name("cnt"), c)
        c.assume(as_z3_bool(ok(v, bits, r)))
        return r
    return f


def _stub_popcnt(v, bits):
    return B.popcnt_spec(v, bits)


def _setup_int(g):
    import ppci.wasm.execution.runtime as rt
    names = ["to_unsigned", "to_signed", "sign_extend", "rotr", "rotl", "clz", "ctz", "popcnt"]
    old = {n: getattr(rt, n) for n in names}
    rt.to_unsigned, rt.to_signed, rt.sign_extend = _stub_to_unsigned, _stub_to_signed, _stub_sign_extend
    rt.rotr, rt.rotl = _stub_rotr, _stub_rotl
    rt.clz, rt.ctz, rt.popcnt = _stub_count(B.clz_ok), _stub_count(B.ctz_ok), _stub_popcnt

    def undo():
        for n, v in old.items():
            setattr(rt, n, v)
    return undo


def srange(n):
    return ("range", -(1 << (n - 1)), 1 << (n - 1))


CONTRACTS = []
for N in (32, 64):
    for nm, sp in (("rotr", B.rotr_spec), ("rotl", B.rotl_spec)):
        CONTRACTS.append(Contract(
            "%s:i%d_%s" % (M, N, nm), "C22", params={"v": srange(N), "cnt": srange(N)}, setup=_setup_int,
            ensures=(lambda sp, N: lambda e: [
                ("result == signed(irot_N(v mod 2^N, cnt mod N))", e.result == B.sext(sp(B.umod(e.v, N), e.cnt, N), N))])(sp, N)))
    for nm, ok in (("clz", B.clz_ok), ("ctz", B.ctz_ok)):
        CONTRACTS.append(Contract(
            "%s:i%d_%s" % (M, N, nm), "C22", params={"v": srange(N)}, setup=_setup_int,
            ensures=(lambda ok, N, nm: lambda e: [("result == i%s_N(v mod 2^N)" % nm, ok(e.v, N, e.result))])(ok, N, nm)))
    CONTRACTS.append(Contract(
        "%s:i%d_popcnt" % (M, N), "C22", params={"v": srange(N)}, setup=_setup_int,
        ensures=(lambda N: lambda e: [("result == ipopcnt_N(v mod 2^N)", e.result == B.popcnt_spec(e.v, N))])(N)))
for N, Ms in ((32, (8, 16)), (64, (8, 16, 32))):
    for Mb in Ms:
        CONTRACTS.append(Contract(
            "%s:i%d_extend%d_s" % (M, N, Mb), "C22", params={"x": srange(N)}, setup=_setup_int,
            ensures=(lambda Mb: lambda e: [("result == sign extension of the low %d bits" % Mb, e.result == B.sext(e.x, Mb))])(Mb)))

# the callee contracts the stubs stand for, re-verified here for the widths the runtime uses
_CALLEES = ("to_unsigned", "to_signed", "sign_extend", "rotr", "rotl", "clz", "ctz", "popcnt")
for ct in B.CONTRACTS:
    short = ct.target.split(":")[1]
    if short in _CALLEES:
        grid = [g for g in ct.grid if g.get("bits") in (8, 16, 32, 64)]
        CONTRACTS.append(Contract(ct.target, "C22", params=ct.params, requires=ct.requires, raises=ct.raises, ensures=ct.ensures,
                                  loops=ct.loops, grid=grid, label="callee contract " + ct.target))


# ---- float -> int ---------------------------------------------------------------------------------------
def _setup_float(g):
    import ppci.wasm.execution.runtime as rt
    import ppci.wasm.util as ut
    from pyvc import pybuiltins as PB
    old = rt.math
    rt.math = SF.MATH
    u = PB.install(ut)

    def undo():
        rt.math = old
        u()
    return undo


def _trunc_real(v):
    """truncation toward zero of a finite double, as an integer term"""
    if isinstance(v, float):
        return int(v)
    return SymInt(SF.real_to_int(v.r, "trunc"))


def _isnan(v):
    return v.isnan() if isinstance(v, SF.SymFloat) else (v != v)


def _isinf(v):
    import math
    return v.isinf() if isinstance(v, SF.SymFloat) else math.isinf(v)


def _signed_repr(x, N):
    return B.sext(x, N)


def _sat_post(N, signed):
    lo, hi = (-(1 << (N - 1)), (1 << (N - 1)) - 1) if signed else (0, (1 << N) - 1)

    def post(e):
        v = e.v
        if isinstance(v, float):
            import math
            if math.isnan(v):
                want = 0
            elif math.isinf(v):
                want = hi if v > 0 else lo
            else:
                want = min(max(int(v), lo), hi)
            return [("result == trunc_sat(v) (two's-complement representation)", e.result == _signed_repr(want, N))]
        c = ctx()
        out = []
        nan, inf = _isnan(v), _isinf(v)
        out.append(("NaN saturates to 0", implies(nan, e.result == 0)))
        out.append(("+infinity saturates to the maximum", implies(and_(inf, v > 0), e.result == _signed_repr(hi, N))))
        out.append(("-infinity saturates to the minimum", implies(and_(inf, v < 0), e.result == _signed_repr(lo, N))))
        fin = and_(not_(nan), not_(inf))
        if bool(fin):
            t = _trunc_real(v)
            out.append(("finite: result == clamp(trunc(v), min, max)",
                        e.result == _signed_repr(ite(t > hi, lambda: hi, lambda: ite(t < lo, lambda: lo, lambda: t)), N)))
        return out
    return post


_FSAMPLES = [0.0, -0.0, 0.5, -0.5, 1.5, -1.5, 100.75, 2.0**31 - 128, 2.0**31, 2.0**31 + 256, -(2.0**31), -(2.0**31) - 256, 2147483647.5, -2147483648.5,
             2.0**32 - 256, 2.0**32, 2.0**32 + 512, 2.0**40, -(2.0**40), 2.0**63 - 2.0**40, 2.0**63, 2.0**63 + 2.0**40, -(2.0**63), -(2.0**63) - 2.0**40,
             2.0**64 - 2.0**41, 2.0**64, 2.0**64 + 2.0**41, 1e30, -1e30, float("inf"), float("-inf"), float("nan"), 4294967295.5, -0.9, -1.0]

for N in (32, 64):
    for F in (32, 64):
        for signed in (True, False):
            CONTRACTS.append(Contract(
                "%s:i%d_trunc_sat_f%d_%s" % (M, N, F, "s" if signed else "u"), "C22", params={"v": "float"}, setup=_setup_float,
                modules=["ppci.wasm.util"],
                sample_inputs=lambda g, rnd: [{"v": {"__float__": repr(x)}} for x in _FSAMPLES],
                ensures=_sat_post(N, signed)))


def _trunc_post(N, signed):
    lo, hi = (-(1 << (N - 1)), (1 << (N - 1)) - 1) if signed else (0, (1 << N) - 1)

    def pre(e):
        v = e.v
        if isinstance(v, float):
            import math
            return [not math.isnan(v) and not math.isinf(v) and lo <= int(v) <= hi]
        fin = and_(not_(_isnan(v)), not_(_isinf(v)))
        ctx().assume(as_z3_bool(fin))
        t = _trunc_real(v)
        e["t"] = t
        return [and_(t >= lo, t <= hi)]

    def post(e):
        t = int(e.v) if isinstance(e.v, float) else e.t
        return [("in-range operand: result == trunc(v) (two's-complement representation)", e.result == _signed_repr(t, N))]
    return pre, post


for N in (32, 64):
    for F in (32, 64):
        for signed in (True, False):
            pre, post = _trunc_post(N, signed)
            CONTRACTS.append(Contract(
                "%s:i%d_trunc_f%d_%s" % (M, N, F, "s" if signed else "u"), "C22", params={"v": "float"}, setup=_setup_float,
                modules=["ppci.wasm.util"],
                sample_inputs=lambda g, rnd: [{"v": {"__float__": repr(x)}} for x in _FSAMPLES],
                requires=pre, ensures=post))

ASSUMED = ["finite doubles are modelled by their exact real value as arbitrary reals (over-approximation, sound for proofs; pyvc.symfloat); no floating-point arithmetic is modelled",
           "f32 operands are doubles that happen to be representable in binary32: the contracts quantify over every double (a superset)",
           "the spec functions of contracts/c39.py are the WebAssembly integer operator definitions (irotl, irotr, iclz, ictz, ipopcnt, iextendM_s)"]
NOT_COVERED = ["wasm -> IR translation, instantiation, memory, globals, traps, the native execution target (whole-pipeline behaviour against a reference "
               "engine is outside contract reach)", "non-saturating trunc_* outside the target range / NaN / infinity (wasm traps; ppci returns a value)",
               "float -> float helpers (floor, ceil, trunc, nearest, min, max, copysign, sqrt, promote/demote, reinterpret)"]
