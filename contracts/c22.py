"""C22 (slice) -- numeric runtime helpers of the WebAssembly runtime (ppci/wasm/execution/runtime.py)
against the WebAssembly numeric definitions.

Integer helpers (i32/i64 rotl, rotr, clz, ctz, popcnt, extendN_s) are verified MODULARLY: the bitfun
callees are replaced by stubs that check the callee's precondition at the call site and return the
callee's specification (the C39 contracts); those callee contracts are re-verified here for the
widths the runtime uses, so a change inside bitfun fails this check too.
Float -> int helpers (trunc_sat_*, trunc_* for in-range operands) use z3's IEEE-754 theory
(pyvc.symfloat): the operand is an arbitrary double (every f32 value is one).
"""
import z3
from pyvc.engine import Contract, make_value
from pyvc.spec import and_, or_, not_, implies, ite, iff, tier
from pyvc.sym import SymInt, SymBool, ctx, mk, mkb, as_z3_int, as_z3_bool, Undecided
from pyvc import sym as S
from pyvc import symfloat as SF
from contracts import c39 as B
from contracts import wasmspec as W

M = "ppci.wasm.execution.runtime"


# ---- callee stubs derived from the C39 contracts --------------------------------------------------
def _pre(name, cond):
    if S.active():
        ctx().oblige("call-pre@%s" % name, cond)


def _stub_to_unsigned(value, bits):
    return B.umod(value, bits)


def _stub_to_signed(value, bits):
    return B.sext(value, bits)


def _stub_sign_extend(value, bits):
    return B.sext(value, bits)


def _stub_rotr(v, count, bits):
    _pre("rotr: 0 <= v < 2^bits", and_(v >= 0, v < (1 << bits)))
    return B.rotr_spec(v, count, bits)


def _stub_rotl(v, count, bits):
    _pre("rotl: 0 <= v < 2^bits", and_(v >= 0, v < (1 << bits)))
    return B.rotl_spec(v, count, bits)


def _stub_count(ok):
    def f(v, bits):
        c = ctx()
        r = make_value(("small", 0, bits + 1), c.fresh_name("cnt"), c)
        c.assume(as_z3_bool(ok(v, bits, r)))
        return r
    return f


def _stub_popcnt(v, bits):
    return B.popcnt_spec(v, bits)


def _setup_int(g):
    import ppci.wasm.execution.runtime as rt
    names = ["to_unsigned", "to_signed", "sign_extend", "rotr", "rotl", "clz", "ctz", "popcnt"]
    old = {n: getattr(rt, n) for n in names}
    rt.to_unsigned, rt.to_signed, rt.sign_extend = _stub_to_unsigned, _stub_to_signed, _stub_sign_extend
    rt.rotr, rt.rotl = _stub_rotr, _stub_rotl
    rt.clz, rt.ctz, rt.popcnt = _stub_count(B.clz_ok), _stub_count(B.ctz_ok), _stub_popcnt

    def undo():
        for n, v in old.items():
            setattr(rt, n, v)
    return undo


def srange(n):
    return ("range", -(1 << (n - 1)), 1 << (n - 1))


CONTRACTS = []
for N in (32, 64):
    for nm, sp in (("rotr", B.rotr_spec), ("rotl", B.rotl_spec)):
        CONTRACTS.append(Contract(
            "%s:i%d_%s" % (M, N, nm), "C22", params={"v": srange(N), "cnt": srange(N)}, setup=_setup_int,
            ensures=(lambda sp, N: lambda e: [
                ("result == signed(irot_N(v mod 2^N, cnt mod N))", e.result == B.sext(sp(B.umod(e.v, N), e.cnt, N), N))])(sp, N)))
    for nm, ok in (("clz", B.clz_ok), ("ctz", B.ctz_ok)):
        CONTRACTS.append(Contract(
            "%s:i%d_%s" % (M, N, nm), "C22", params={"v": srange(N)}, setup=_setup_int,
            ensures=(lambda ok, N, nm: lambda e: [("result == i%s_N(v mod 2^N)" % nm, ok(e.v, N, e.result))])(ok, N, nm)))
    CONTRACTS.append(Contract(
        "%s:i%d_popcnt" % (M, N), "C22", params={"v": srange(N)}, setup=_setup_int,
        ensures=(lambda N: lambda e: [("result == ipopcnt_N(v mod 2^N)", e.result == B.popcnt_spec(e.v, N))])(N)))
for N, Ms in ((32, (8, 16)), (64, (8, 16, 32))):
    for Mb in Ms:
        CONTRACTS.append(Contract(
            "%s:i%d_extend%d_s" % (M, N, Mb), "C22", params={"x": srange(N)}, setup=_setup_int,
            ensures=(lambda Mb: lambda e: [("result == sign extension of the low %d bits" % Mb, e.result == B.sext(e.x, Mb))])(Mb)))

# the callee contracts the stubs stand for, re-verified here for the widths the runtime uses
_CALLEES = ("to_unsigned", "to_signed", "sign_extend", "rotr", "rotl", "clz", "ctz", "popcnt")
for ct in B.CONTRACTS:
    short = ct.target.split(":")[1]
    if short in _CALLEES:
        grid = [g for g in ct.grid if g.get("bits") in (8, 16, 32, 64)]
        CONTRACTS.append(Contract(ct.target, "C22", params=ct.params, requires=ct.requires, raises=ct.raises, ensures=ct.ensures,
                                  loops=ct.loops, grid=grid, label="callee contract " + ct.target))


# ---- float -> int ---------------------------------------------------------------------------------------
def _setup_float(g):
    import ppci.wasm.execution.runtime as rt
    import ppci.wasm.util as ut
    from pyvc import pybuiltins as PB
    old = rt.math
    rt.math = SF.MATH
    u = PB.install(ut)

    def undo():
        rt.math = old
        u()
    return undo


def _trunc_real(v):
    """truncation toward zero of a finite double, as an integer term"""
    if isinstance(v, float):
        return int(v)
    return SymInt(SF.real_to_int(v.r, "trunc"))


def _isnan(v):
    return v.isnan() if isinstance(v, SF.SymFloat) else (v != v)


def _isinf(v):
    import math
    return v.isinf() if isinstance(v, SF.SymFloat) else math.isinf(v)


def _signed_repr(x, N):
    return B.sext(x, N)


def _sat_post(N, signed):
    lo, hi = (-(1 << (N - 1)), (1 << (N - 1)) - 1) if signed else (0, (1 << N) - 1)

    def post(e):
        v = e.v
        if isinstance(v, float):
            import math
            if math.isnan(v):
                want = 0
            elif math.isinf(v):
                want = hi if v > 0 else lo
            else:
                want = min(max(int(v), lo), hi)
            return [("result == trunc_sat(v) (two's-complement representation)", e.result == _signed_repr(want, N))]
        c = ctx()
        out = []
        nan, inf = _isnan(v), _isinf(v)
        out.append(("NaN saturates to 0", implies(nan, e.result == 0)))
        out.append(("+infinity saturates to the maximum", implies(and_(inf, v > 0), e.result == _signed_repr(hi, N))))
        out.append(("-infinity saturates to the minimum", implies(and_(inf, v < 0), e.result == _signed_repr(lo, N))))
        fin = and_(not_(nan), not_(inf))
        if bool(fin):
            t = _trunc_real(v)
            out.append(("finite: result == clamp(trunc(v), min, max)",
                        e.result == _signed_repr(ite(t > hi, lambda: hi, lambda: ite(t < lo, lambda: lo, lambda: t)), N)))
        return out
    return post


_FSAMPLES = [0.0, -0.0, 0.5, -0.5, 1.5, -1.5, 100.75, 2.0**31 - 128, 2.0**31, 2.0**31 + 256, -(2.0**31), -(2.0**31) - 256, 2147483647.5, -2147483648.5,
             2.0**32 - 256, 2.0**32, 2.0**32 + 512, 2.0**40, -(2.0**40), 2.0**63 - 2.0**40, 2.0**63, 2.0**63 + 2.0**40, -(2.0**63), -(2.0**63) - 2.0**40,
             2.0**64 - 2.0**41, 2.0**64, 2.0**64 + 2.0**41, 1e30, -1e30, float("inf"), float("-inf"), float("nan"), 4294967295.5, -0.9, -1.0]

for N in (32, 64):
    for F in (32, 64):
        for signed in (True, False):
            CONTRACTS.append(Contract(
                "%s:i%d_trunc_sat_f%d_%s" % (M, N, F, "s" if signed else "u"), "C22", params={"v": "float"}, setup=_setup_float,
                modules=["ppci.wasm.util"],
                sample_inputs=lambda g, rnd: [{"v": {"__float__": repr(x)}} for x in _FSAMPLES],
                ensures=_sat_post(N, signed)))


def _trap_exc():
    from ppci.wasm.execution._base_instance import WasmTrapException
    return WasmTrapException


def _trunc_contract(N, signed):
    """iN.trunc_fM_s/u (spec 4.3.3 trunc_s / trunc_u): traps iff the operand is NaN, an infinity, or its
    truncation lies outside the integer type; otherwise the truncated value (two's-complement representation)"""
    lo, hi = (-(1 << (N - 1)), (1 << (N - 1)) - 1) if signed else (0, (1 << N) - 1)

    def traps(e):
        v = e.v
        if isinstance(v, float):
            import math
            return math.isnan(v) or math.isinf(v) or not lo <= int(v) <= hi
        t = _trunc_real(v)
        return or_(_isnan(v), _isinf(v), t < lo, t > hi)

    def post(e):
        t = int(e.v) if isinstance(e.v, float) else _trunc_real(e.v)
        return [("representable operand: result == trunc(v) (two's-complement representation)", e.result == _signed_repr(t, N))]
    return traps, post


for N in (32, 64):
    for F in (32, 64):
        for signed in (True, False):
            traps, post = _trunc_contract(N, signed)
            CONTRACTS.append(Contract(
                "%s:i%d_trunc_f%d_%s" % (M, N, F, "s" if signed else "u"), "C22", params={"v": "float"}, setup=_setup_float,
                modules=["ppci.wasm.util"],
                sample_inputs=lambda g, rnd: [{"v": {"__float__": repr(x)}} for x in _FSAMPLES],
                raises=[(_trap_exc(), traps)], ensures=post))

# ---- float -> float helpers -------------------------------------------------------------------------------
def _stub_round_f32(v):
    """assumed contract of runtime._round_f32 (struct.pack('<f') rounding, C code): NaN stays NaN, infinities and
    zeros are kept with their sign, a finite value becomes a finite value or the infinity of the same sign"""
    if isinstance(v, float):
        return W.f32r(v)
    c = ctx()
    r = SF.fresh(c.fresh_name("f32r"))
    c.assume(r.nan == v.nan)
    c.assume(z3.Implies(z3.Not(v.nan), r.neg == v.neg))
    c.assume(z3.Implies(v.inf, r.inf))
    c.assume(z3.Implies(z3.And(z3.Not(v.nan), z3.Not(v.inf), v.r == 0), z3.And(z3.Not(r.inf), r.r == 0)))
    c.assume(z3.Implies(z3.And(z3.Not(v.nan), z3.Not(v.inf), v.r != 0), z3.Or(r.inf, z3.And(r.r != 0, (r.r < 0) == (v.r < 0)))))
    return r


def _setup_ff(g):
    import ppci.wasm.execution.runtime as rt
    from pyvc import pybuiltins as PB
    old_math, old_r = rt.math, rt._round_f32
    rt.math = SF.MATH
    rt._round_f32 = _stub_round_f32
    u = PB.install(rt)

    def undo():
        rt.math, rt._round_f32 = old_math, old_r
        u()
    return undo


def _F(x):
    return SF.SymFloat.of(x)


def _fin(v):
    return z3.And(z3.Not(v.nan), z3.Not(v.inf))


def _mkf(nan, inf, neg, r):
    return SF.SymFloat(nan, inf, neg, r)


def _round_spec(mode):
    """ffloor / fceil / ftrunc / fnearest (spec 4.3.3): NaN -> NaN, infinities and zeros unchanged, otherwise the
    integral value, with the operand's sign when the result is zero"""
    def post(e):
        v, r = _F(e.x), _F(e.result)
        want = _mkf(v.nan, v.inf, v.neg, z3.If(_fin(v), z3.ToReal(SF.real_to_int(v.r, mode)), v.r))
        return [("result == f%s(x): NaN for NaN, infinities kept, integral value otherwise, sign of x kept (-0.0 results)" % mode, SF.feq(r, want))]
    return post


def _minmax_spec(which):
    def post(e):
        x, y, r = _F(e.x), _F(e.y), _F(e.result)
        nan = z3.Or(x.nan, y.nan)
        lt = as_z3_bool(e.x < e.y)
        gt = as_z3_bool(e.x > e.y)
        first = lt if which == "min" else gt        # x is the answer
        second = gt if which == "min" else lt       # y is the answer
        both_zero = z3.And(_fin(x), _fin(y), x.r == 0, y.r == 0)
        zneg = z3.Or(x.neg, y.neg) if which == "min" else z3.And(x.neg, y.neg)
        return [("NaN if either operand is NaN", implies(mkb(nan), mkb(r.nan))),
                ("the smaller / larger operand otherwise", implies(mkb(z3.And(z3.Not(nan), first)), SF.feq(r, x))),
                ("the smaller / larger operand otherwise (second)", implies(mkb(z3.And(z3.Not(nan), second)), SF.feq(r, y))),
                ("equal operands: that value; for zeros of different sign -0.0 for min, +0.0 for max",
                 implies(mkb(z3.And(z3.Not(nan), z3.Not(lt), z3.Not(gt))),
                         ite(mkb(both_zero), lambda: SF.feq(r, _mkf(z3.BoolVal(False), z3.BoolVal(False), zneg, z3.RealVal(0))), lambda: SF.feq(r, x))))]
    return post


def _sqrt_post(e):
    v, r = _F(e.v), _F(e.result)
    negative = z3.Or(z3.And(v.inf, v.neg), z3.And(_fin(v), v.r < 0))
    return [("NaN for NaN and for negative operands (including -infinity)", implies(mkb(z3.Or(v.nan, negative)), mkb(r.nan))),
            ("sqrt(+-0) == +-0", implies(mkb(z3.And(_fin(v), v.r == 0)), SF.feq(r, v))),
            ("sqrt(+infinity) == +infinity", implies(mkb(z3.And(v.inf, z3.Not(v.neg), z3.Not(v.nan))), SF.feq(r, v))),
            ("positive finite operand: a non-negative, non-NaN result", implies(mkb(z3.And(_fin(v), v.r > 0)), mkb(z3.And(z3.Not(r.nan), z3.Not(r.neg)))))]


_FF_SAMPLES1 = [0.0, -0.0, 0.5, -0.5, 1.5, -1.5, 2.5, -2.5, 3.5, 0.49999999999999994, -0.2, 0.2, 1e300, -1e300, 4503599627370497.0, 4503599627370496.5,
                float("inf"), float("-inf"), float("nan"), 5e-324, -5e-324, 1.0, -1.0, 4.0, 2.25, -4.0]


def _s1(name):
    return lambda g, rnd: [{name: {"__float__": repr(x)}} for x in _FF_SAMPLES1]


def _s2(g, rnd):
    return [{"x": {"__float__": repr(rnd.choice(_FF_SAMPLES1))}, "y": {"__float__": repr(rnd.choice(_FF_SAMPLES1))}} for _ in range(60)] + \
           [{"x": {"__float__": a}, "y": {"__float__": b}} for a in ("0.0", "-0.0", "nan", "1.0") for b in ("0.0", "-0.0", "nan", "1.0")]


for F in (32, 64):
    for nm, mode in (("floor", "floor"), ("ceil", "ceil"), ("trunc", "trunc"), ("nearest", "round")):
        CONTRACTS.append(Contract("%s:f%d_%s" % (M, F, nm), "C22", params={"x": "float"}, setup=_setup_ff, modules=[M],
                                  sample_inputs=_s1("x"), ensures=_round_spec(mode)))
    for nm in ("min", "max"):
        CONTRACTS.append(Contract("%s:f%d_%s" % (M, F, nm), "C22", params={"x": "float", "y": "float"}, setup=_setup_ff, modules=[M],
                                  sample_inputs=_s2, ensures=_minmax_spec(nm)))
    CONTRACTS.append(Contract("%s:f%d_sqrt" % (M, F), "C22", params={"v": "float"}, setup=_setup_ff, modules=[M], sample_inputs=_s1("v"), ensures=_sqrt_post))
    CONTRACTS.append(Contract("%s:f%d_abs" % (M, F), "C22", params={"x": "float"}, setup=_setup_ff, modules=[M], sample_inputs=_s1("x"),
                              ensures=lambda e: [("fabs: the operand with the sign bit cleared (NaN stays NaN)",
                                                  SF.feq(e.result, _mkf(_F(e.x).nan, _F(e.x).inf, z3.BoolVal(False), z3.If(_F(e.x).r < 0, -_F(e.x).r, _F(e.x).r))))]))
    CONTRACTS.append(Contract("%s:f%d_copysign" % (M, F), "C22", params={"x": "float", "y": "float"}, setup=_setup_ff, modules=[M], sample_inputs=_s2,
                              ensures=lambda e: [("fcopysign: magnitude of x, sign bit of y (also for zeros, infinities and NaN operands y)",
                                                  SF.feq(e.result, _mkf(_F(e.x).nan, _F(e.x).inf, _F(e.y).neg,
                                                                         z3.If(_F(e.y).neg, -1, 1) * z3.If(_F(e.x).r < 0, -_F(e.x).r, _F(e.x).r))))]))
CONTRACTS.append(Contract("%s:f64_promote_f32" % M, "C22", params={"v": "float"}, setup=_setup_ff, modules=[M], sample_inputs=_s1("v"),
                          ensures=lambda e: [("promotion keeps the value", SF.feq(e.result, e.v))]))
CONTRACTS.append(Contract("%s:f32_demote_f64" % M, "C22", params={"v": "float"}, setup=_setup_ff, modules=[M], sample_inputs=_s1("v"),
                          ensures=lambda e: [("demotion keeps NaN, the sign, infinities and zeros (rounding itself: bounded stand-in)",
                                              and_(iff(mkb(_F(e.result).nan), mkb(_F(e.v).nan)),
                                                   implies(mkb(z3.Not(_F(e.v).nan)), mkb(_F(e.result).neg == _F(e.v).neg)),
                                                   implies(mkb(_F(e.v).inf), mkb(_F(e.result).inf))))]))


# ---- wasm -> IR operator tables (WasmToIrCompiler.gen_binop / gen_cmpop) -------------------------------------
# The real generator method is run on a stub compiler whose value stack holds two IR parameters; the IR it emits
# (casts to the unsigned type, the Binop, the cast back / the pushed comparison triple) is evaluated under the IR
# semantics of contracts/c24.py for symbolic operands and compared with the WebAssembly definition.
from contracts import c24 as IRS
from pyvc.spec import tdiv, trem, b2i

WM = "ppci.wasm.wasm2ppci"


def _gen_on_stub(method, opcode):
    from ppci.wasm.wasm2ppci import WasmToIrCompiler
    from ppci.wasm import components
    from ppci import ir

    class Stub(WasmToIrCompiler):
        def __init__(self, ty):
            self.stack = [ir.Parameter("a", ty), ir.Parameter("b", ty)] if ty is not None else []
            self.emitted = []

        def pop_value(self, ir_typ=None):
            v = self.stack.pop()
            if ir_typ is not None and v.ty is not ir_typ:
                raise AssertionError("operand type %s, expected %s" % (v.ty, ir_typ))
            return v

        def push_value(self, v):
            self.stack.append(v)

        def emit(self, ins):
            self.emitted.append(ins)
            self.blocks[self.current].append(ins)
            return ins

    class Builder:
        """records the control-flow skeleton the generator builds (blocks are real ir.Block objects, kept unlinked)"""

        def __init__(self, stub):
            self.stub, self.n = stub, 0

        def new_block(self, name=None):
            self.n += 1
            blk = ir.Block(name or "b%d" % self.n)
            self.stub.blocks[blk] = []
            return blk

        def set_block(self, blk):
            self.stub.current = blk

    ty = WasmToIrCompiler.TYP_MAP[opcode.split(".")[0]]
    st = Stub(ty)
    st.blocks = {}
    st.builder = Builder(st)
    st.entry = st.current = st.builder.new_block("entry")
    st._runtime_call = lambda name, args=(): st.emit(("runtime-call", name))
    if opcode.endswith("eqz"):
        st.stack.pop()                      # one operand only (named a)
    try:
        getattr(st, method)(components.Instruction(opcode))
    except AttributeError as ex:
        if "Stub" in str(ex):
            # the generator reads compiler state this recording stub does not model: the contract cannot judge the new
            # code (undecided, never a violation); the bounded end-to-end stand-in still exercises it
            raise Undecided("contract stale: %s uses compiler state the stub does not model (%s)" % (method, ex))
        raise
    if len(st.stack) != 1:
        raise AssertionError("%s left %d values on the stack" % (opcode, len(st.stack)))
    _STUBS[id(st.stack[0])] = st
    return st.stack[0]


_STUBS = {}      # result node -> the stub it was generated on (for results that live in a control-flow skeleton)


def _ir_walk(node, a, b, e):
    """execute the recorded skeleton from its entry block up to the block that defines `node`:
    returns (a runtime trap call was reached, value of node).  Conditional jumps fork the symbolic path."""
    from ppci import ir
    st = _STUBS[id(node)]
    vals, prev, blk, trapped = {}, None, st.entry, False

    def val(v):
        if id(v) in vals:
            return vals[id(v)]
        return _ir_value(v, a, b, e)
    for _ in range(16):
        nxt = None
        for ins in st.blocks[blk]:
            if isinstance(ins, tuple):
                if ins == ("runtime-call", "unreachable"):
                    trapped = True
                    continue
                raise Undecided("contract stale: runtime call %r in an operator lowering" % (ins,))
            if isinstance(ins, ir.CJump):
                cond = {"==": lambda x, y: x == y, "!=": lambda x, y: x != y, "<": lambda x, y: x < y, ">": lambda x, y: x > y,
                        "<=": lambda x, y: x <= y, ">=": lambda x, y: x >= y}[ins.cond](val(ins.a), val(ins.b))
                nxt = ins.lab_yes if bool(cond) else ins.lab_no
                break
            if isinstance(ins, ir.Jump):
                nxt = ins.target
                break
            if isinstance(ins, ir.Phi):
                vals[id(ins)] = val(ins.inputs[prev])
            elif isinstance(ins, ir.Binop):
                x, y = val(ins.a), val(ins.b)
                for cnd in IRS.ir_defined(ins.operation, ins.ty, x, y):
                    if not bool(cnd):
                        raise Undecided("IR-undefined operation reached: %s" % ins)
                vals[id(ins)] = IRS.ir_binop(ins.operation, ins.ty, x, y)
            elif isinstance(ins, ir.Cast):
                vals[id(ins)] = IRS.wrap(ins.ty, val(ins.src))
            elif isinstance(ins, ir.Const):
                vals[id(ins)] = ins.value
            else:
                raise Undecided("contract stale: %s in an operator lowering" % type(ins).__name__)
            if ins is node:
                return trapped, vals[id(ins)]
        if nxt is None:
            raise Undecided("contract stale: the skeleton ends before the result is defined")
        prev, blk = blk, nxt
    raise Undecided("contract stale: skeleton longer than 16 blocks")


def _ir_value(v, a, b, e):
    """IR run-time value of the node v built from parameters a, b (definedness conditions collected in e['irdef'])"""
    from ppci import ir
    if isinstance(v, ir.Parameter):
        return a if v.name == "a" else b
    if isinstance(v, ir.Const):
        return v.value
    if isinstance(v, ir.Cast):
        return IRS.wrap(v.ty, _ir_value(v.src, a, b, e))
    if isinstance(v, ir.Binop):
        x, y = _ir_value(v.a, a, b, e), _ir_value(v.b, a, b, e)
        e["irdef"] = e.get("irdef", []) + list(IRS.ir_defined(v.operation, v.ty, x, y))
        return IRS.ir_binop(v.operation, v.ty, x, y)
    raise Undecided("contract stale: generator emitted a %s node" % type(v).__name__)


def _ir_defs(v, a, b):
    """definedness conditions of the IR node v, innermost first (each may assume the previous ones)"""
    from ppci import ir
    if isinstance(v, ir.Cast):
        yield from _ir_defs(v.src, a, b)
    elif isinstance(v, ir.Binop):
        yield from _ir_defs(v.a, a, b)
        yield from _ir_defs(v.b, a, b)
        yield from IRS.ir_defined(v.operation, v.ty, _ir_value(v.a, a, b, {}), _ir_value(v.b, a, b, {}))


def _w_defined(op, n, a, b):
    m = 1 << n
    if op == "div_s":
        return and_(b != 0, not_(and_(a == -(m >> 1), b == -1)))
    if op == "rem_s":
        return b != 0
    if op in ("div_u", "rem_u"):
        return b % m != 0
    return True


def _w_bin(op, n, a, b):
    """(defined-and-not-trapping, value) of the WebAssembly integer operator, operands and result in signed interpretation"""
    m = 1 << n
    ua, ub = a % m, b % m
    sg = lambda x: B.sext(x, n)
    if op in ("add", "sub", "mul"):
        return True, sg({"add": a + b, "sub": a - b, "mul": a * b}[op])
    if op == "div_s":
        return and_(b != 0, not_(and_(a == -(m >> 1), b == -1))), tdiv(a, b)
    if op == "div_u":
        return ub != 0, sg(ua // ub)
    if op == "rem_s":
        return b != 0, trem(a, b)
    if op == "rem_u":
        return ub != 0, sg(ua % ub)
    if op in ("and", "or", "xor"):
        # iand / ior / ixor act on the n-bit patterns; on the signed interpretations that is Python's & | ^ (infinite
        # two's complement: the result's bits from n-1 upwards are all copies of one bit) -- ASSUMED identity
        return True, {"and": lambda: a & b, "or": lambda: a | b, "xor": lambda: a ^ b}[op]()
    k = IRS.pick(b, n)                          # shift count: concretised 0 <= b < n (the IR-defined domain)
    if op == "shl":
        return True, sg(ua * (1 << k))
    if op == "shr_u":
        return True, sg(ua >> k)
    if op == "shr_s":
        return True, a // (1 << k)
    raise KeyError(op)


def _mk_ab(c, g):
    n = g["n"]
    lo, hi = -(1 << (n - 1)), 1 << (n - 1)
    a = make_value(("range", lo, hi), "a", c)
    b = make_value(("range", lo, hi), "b", c)
    return {"args": [], "env": {"a": a, "b": b}, "inputs": {"a": a, "b": b}}


def _samples_ab(g, rnd):
    vals = W.ivals(g["n"])
    return [{"a": rnd.choice(vals), "b": rnd.choice(vals)} for _ in range(50)]


def _binop_pre(e):
    if e.op in ("shl", "shr_s", "shr_u"):
        yield and_(e.b >= 0, e.b < e.n)         # outside: not defined by the IR (left to the back ends; bounded stand-in)
        e["b"] = IRS.pick(e.b, e.n)             # one path per shift count
    yield _w_defined(e.op, e.n, e.a, e.b)
    node = _gen_on_stub("gen_binop", "i%d.%s" % (e.n, e.op))
    yield from _ir_defs(node, e.a, e.b)
    e["irv"] = _ir_value(node, e.a, e.b, e)


def _binop_call(fn, env, args, kwargs):
    return _gen_on_stub("gen_binop", "i%d.%s" % (env.n, env.op)).ty.name


def _sdiv_call(fn, env, args, kwargs):
    node = _gen_on_stub("gen_binop", "i%d.%s" % (env.n, env.op))
    trapped, v = _ir_walk(node, env.a, env.b, env)
    return [1 if trapped else 0, v, node.ty.name]


for _n in (32, 64):
    for _op in ("div_s", "rem_s"):
        CONTRACTS.append(Contract(
            WM + ":WasmToIrCompiler.gen_signed_division", "C22", label="gen_binop(i%d.%s): guarded lowering" % (_n, _op), grid=[{"n": _n, "op": _op}], make=_mk_ab,
            call=_sdiv_call, sample_inputs=lambda g, rnd: _samples_ab(g, rnd) + [{"a": -(1 << (g["n"] - 1)), "b": -1}, {"a": -(1 << (g["n"] - 1)), "b": 1}, {"a": 5, "b": -1}],
            replay_args=lambda g, v: {"args": [], "env": dict(v)},
            requires=lambda e: [e.b != 0],          # division by zero: the IR division itself is the trap (bounded stand-in)
            ensures=lambda e: [("the emitted IR has the instruction's result type", e.result[2] == "i%d" % e.n),
                               ("the trap call is reached iff the instruction traps (div_s of INT_MIN by -1); rem_s never traps",
                                e.result[0] == (b2i(and_(e.a == -(1 << (e.n - 1)), e.b == -1)) if e.op == "div_s" else 0)),
                               ("otherwise the IR value is the WebAssembly value (rem_s of INT_MIN by -1 is 0)",
                                implies(e.result[0] == 0, e.result[1] == (tdiv(e.a, e.b) if e.op == "div_s" else trem(e.a, e.b))))]))

for _n in (32, 64):
    for _op in ("add", "sub", "mul", "div_u", "rem_u", "and", "or", "xor", "shl", "shr_s", "shr_u"):
        CONTRACTS.append(Contract(
            WM + ":WasmToIrCompiler.gen_binop", "C22", label="gen_binop(i%d.%s)" % (_n, _op), grid=[{"n": _n, "op": _op}], make=_mk_ab,
            call=_binop_call, sample_inputs=_samples_ab, replay_args=lambda g, v: {"args": [], "env": dict(v)},
            requires=_binop_pre,
            ensures=lambda e: [("the emitted IR has the instruction's result type", e.result == "i%d" % e.n),
                               ("IR value of the emitted code == WebAssembly value, for all operands where neither traps / is undefined",
                                e.irv == _w_bin(e.op, e.n, e.a, e.b)[1])]))

_WCMP = {"eq": lambda a, b, ua, ub: a == b, "ne": lambda a, b, ua, ub: a != b, "lt_s": lambda a, b, ua, ub: a < b, "lt_u": lambda a, b, ua, ub: ua < ub,
         "gt_s": lambda a, b, ua, ub: a > b, "gt_u": lambda a, b, ua, ub: ua > ub, "le_s": lambda a, b, ua, ub: a <= b, "le_u": lambda a, b, ua, ub: ua <= ub,
         "ge_s": lambda a, b, ua, ub: a >= b, "ge_u": lambda a, b, ua, ub: ua >= ub, "eqz": lambda a, b, ua, ub: a == 0}


def _cmp_call(fn, env, args, kwargs):
    r = _gen_on_stub("gen_cmpop", "i%d.%s" % (env.n, env.op))
    if not (isinstance(r, tuple) and len(r) == 3):
        raise Undecided("contract stale: gen_cmpop pushed %r" % (r,))
    env["triple"] = r
    return r[0]


def _cmp_post(e):
    op, x, y = e.triple
    xv, yv = _ir_value(x, e.a, e.b, e), _ir_value(y, e.a, e.b, e)
    m = 1 << e.n
    return [("IR condition <=> WebAssembly comparison, for all operands",
             iff(IRS.IRCMP[op](xv, yv) if hasattr(IRS, "IRCMP") else {"==": xv == yv, "!=": xv != yv, "<": xv < yv, ">": xv > yv, "<=": xv <= yv, ">=": xv >= yv}[op],
                 _WCMP[e.op](e.a, e.b, e.a % m, e.b % m)))]


for _n in (32, 64):
    for _op in _WCMP:
        CONTRACTS.append(Contract(
            WM + ":WasmToIrCompiler.gen_cmpop", "C22", label="gen_cmpop(i%d.%s)" % (_n, _op), grid=[{"n": _n, "op": _op}], make=_mk_ab,
            call=_cmp_call, sample_inputs=_samples_ab, replay_args=lambda g, v: {"args": [], "env": dict(v)}, ensures=_cmp_post))


# ---- bounded end-to-end stand-in (never counted as proved) ------------------------------------------------
# One module with one exported single-instruction function per numeric instruction (plus a few that reach
# an operator through constants, select and a compared branch) is translated by the real wasm -> IR ->
# python pipeline (instantiate(target="python")) and every export is evaluated on a boundary-value grid
# against the reference semantics of contracts/wasmspec.py.
_INST = {}


def _instance():
    if "i" not in _INST:
        from ppci.wasm import Module, instantiate
        fs = W.functions()
        m = Module("(module\n" + "\n".join(f[1] for f in fs) + ")")
        _INST["i"] = (instantiate(m, {}, target="python"), {f[0]: f for f in fs})
    return _INST["i"]


def _fj(x):
    """JSON-able form of an argument / result"""
    return {"__float__": repr(x)} if isinstance(x, float) else x


def _unj(x):
    return float(x["__float__"]) if isinstance(x, dict) else x


def _eval_one(name, args):
    inst, fs = _instance()
    spec = fs[name][2]
    want = spec(*args)
    try:
        got = getattr(inst.exports, name)(*args)
        exc = None
    except Exception as ex:          # any exception is the observable form of a trap on the python target
        got, exc = W.TRAP, "%s: %s" % (type(ex).__name__, str(ex)[:80])
    if want == W.TRAP or got == W.TRAP:
        ok = want == got
    else:
        ok = W.same(got, want)
    return ok, want, got, exc


def bounded(tier_name, rnd):
    import itertools
    thorough = tier_name != "quick"
    inst, fs = _instance()
    evals, vio, per = 0, [], {}
    known = {tuple(k) for k in _KNOWN_E2E}
    for name, (_, wat, spec, params, result) in fs.items():
        doms = [W.ivals(int(p[1:]), thorough) if p[0] == "i" else W.fvals(int(p[1:]), thorough) for p in params]
        nbad = 0
        for args in itertools.product(*doms):
            evals += 1
            ok, want, got, exc = _eval_one(name, args)
            if not ok and nbad < 2:
                nbad += 1
                vio.append({"name": "wasm %s%r on the python target == WebAssembly semantics" % (name, tuple(args)),
                            "input": {"function": name, "wat": wat, "args": [_fj(a) for a in args]},
                            "expected": repr(want), "observed": repr(got) + (" (%s)" % exc if exc else "")})
        per[name] = nbad
    from contracts import wasmprogs as WP
    ncalls = 0
    for pr in WP.PROGRAMS:
        try:
            bad = WP.run_program(pr)
        except Exception as ex:
            bad = [(0, 0, ("<instantiate>", ()), "instantiates", "raised %s: %s" % (type(ex).__name__, str(ex)[:100]))]
        ncalls += 2 * len(pr[2])
        for (rnd_i, ci, call, want, got) in bad[:2]:
            vio.append({"name": "program %s, instantiation %d, call %d %s%r == reference" % (pr[0], rnd_i + 1, ci, call[0], tuple(call[1])),
                        "input": {"program": pr[0], "wat": pr[1]}, "expected": repr(want), "observed": repr(got)})
    evals += ncalls
    nat = _native_part(tier_name, fs)
    evals += nat["evaluations"]
    vio += nat["violations"]
    s0 = list(fs.values())[0]
    return {"evaluations": evals, "distinct_nontrivial": evals, "exhaustive": True, "program_calls": ncalls, "native_target": {k: v for k, v in nat.items() if k != "violations"},
            "rule": "one exported function per numeric instruction of the supported set (%d functions: every i32/i64/f32/f64 arithmetic, bitwise, shift, rotate, "
                    "count, comparison, conversion, truncation, reinterpretation, sign-extension instruction, plus 5 functions reaching an operator through "
                    "constants / select / if) x the full product of a boundary-value grid per operand type (powers of two +-1, type minima / maxima, shift "
                    "counts around the width, signed zeros, infinities, NaN, rounding ties, values around 2^24 / 2^31 / 2^32 / 2^53 / 2^63 / 2^64); compiled by the "
                    "real wasm->IR->python pipeline, compared with the reference semantics in contracts/wasmspec.py; each (function, arguments) pair is distinct.  Second part: %d "
                    "multi-feature programs (contracts/wasmprogs.py: br_table, loops, recursion, memory with data segments / sub-word access / grow, tables and call_indirect, globals, "
                    "f64 loop, traps), each instantiated twice from one Module object and driven through a fixed call sequence against a Python reference"
                    % (len(fs), len(WP.PROGRAMS)),
            "programs": len(fs),
            "samples": [{"function": s0[0], "wat": s0[1], "args": [1, -1]}, {"function": "f64_min", "args": [{"__float__": "0.0"}, {"__float__": "-0.0"}]}],
            "bound": "single-instruction functions; %s operand grid (%d i32, %d i64, %d f32, %d f64 values); python execution target only"
                     % (tier_name, len(W.ivals(32, thorough)), len(W.ivals(64, thorough)), len(W.fvals(32, thorough)), len(W.fvals(64, thorough))),
            "violations": vio}


_KNOWN_E2E = []


# ---- native execution target: the same single-instruction module, in a child process ------------------------------
def _run_native_child(tier_name, verbose, skip_traps, names, exclude=None, timeout=900):
    import json as _json
    import os
    import subprocess
    import sys
    here = os.path.dirname(os.path.dirname(os.path.abspath(__file__)))
    env = dict(os.environ)
    env["WASM_NATIVE_EXCLUDE"] = _json.dumps(exclude or {})
    try:
        p = subprocess.run([sys.executable, "-m", "contracts.wasm_native_child", tier_name, "1" if verbose else "0", "1" if skip_traps else "0"] + list(names),
                           capture_output=True, text=True, env=env, timeout=timeout, cwd=here)
    except subprocess.TimeoutExpired:
        return None, [], "timeout"
    lines = []
    for l in p.stdout.splitlines():
        if l.startswith("{"):
            try:
                lines.append(_json.loads(l))
            except ValueError:
                pass
    return p.returncode, lines, p.stderr[-400:]


def _native_known_exclusions():
    from pyvc.runner import load_known
    ex = {}
    for d in load_known("C22"):
        i = d.get("input", {})
        if d.get("bounded") and i.get("target") == "native" and i.get("crash"):
            ex.setdefault(i["function"], []).append(i["args"])
    return ex


def _native_part(tier_name, fs):
    """every export of the single-instruction module on the native target; inputs on which WebAssembly traps are
    not evaluated there (integer-division traps kill the process, see the known findings)"""
    names = list(fs)
    excl = _native_known_exclusions()
    todo, evals, vio, crashes, done = list(names), 0, [], 0, 0
    while todo:
        rc, lines, err = _run_native_child(tier_name, False, True, todo, excl)
        if rc is None:
            return {"evaluations": evals, "functions": done, "skipped": "child timed out (not judged)", "violations": vio}
        started = None
        for l in lines:
            if "start" in l:
                started = l["start"]
            elif "done" in l:
                started = None
                done += 1
                evals += l["n"]
                for b in l["bad"][:2]:
                    vio.append({"name": "wasm %s%r on the native target == WebAssembly semantics" % (l["done"], tuple(_unj(a) for a in b["args"])),
                                "input": {"target": "native", "function": l["done"], "wat": fs[l["done"]][1], "args": b["args"]},
                                "expected": b["expected"], "observed": b["observed"]})
        if started is None:
            if rc != 0:
                vio.append({"name": "native child process completes", "input": {"target": "native", "function": None}, "expected": "exit 0", "observed": "exit %s: %s" % (rc, err[-200:])})
            break
        # the child died inside `started`: find the call
        crashes += 1
        rc2, lines2, err2 = _run_native_child(tier_name, True, True, [started], excl)
        last = None
        for l in lines2:
            if "call" in l:
                last = l["call"]
        vio.append({"name": "wasm %s%r on the native target returns (process killed)" % (started, tuple(_unj(a) for a in (last or []))),
                    "input": {"target": "native", "function": started, "wat": fs[started][1], "args": last, "crash": True},
                    "expected": "a result", "observed": "child process exit status %s" % rc2})
        todo = todo[todo.index(started) + 1:]
        if crashes > 6:
            break
    # the multi-feature programs (all but the trap program) on the native target
    rc, lines, err = _run_native_child(tier_name, False, True, ["--programs"])
    progs, started = 0, None
    for l in lines:
        if "start" in l:
            started = l["start"]
        elif "done" in l:
            started = None
            progs += 1
            evals += l["n"]
            for b in l["bad"]:
                vio.append({"name": "program %s on the native target, instantiation %d, call %s == reference" % (l["done"], b["instantiation"], b["call"]),
                            "input": {"target": "native", "program": l["done"]}, "expected": b["expected"], "observed": b["observed"]})
    if rc is not None and (rc != 0 or started is not None):
        vio.append({"name": "program %s on the native target completes (process killed)" % started, "input": {"target": "native", "program": started, "crash": True},
                    "expected": "results", "observed": "child process exit status %s" % rc})
    return {"evaluations": evals, "functions": done, "programs": progs, "crashes": crashes,
            "note": "inputs on which WebAssembly traps are not evaluated on the native target", "violations": vio}


def replay_bounded(inp):
    if inp.get("target") == "native" and "program" in inp:
        rc, lines, err = _run_native_child("quick", False, True, ["--programs"])
        for l in lines:
            if l.get("done") == inp["program"]:
                if l["bad"]:
                    return False, dict(l["bad"][0], target="native", program=inp["program"])
                return True, {"target": "native", "program": inp["program"], "observed": "every call equals the reference"}
        return False, {"target": "native", "program": inp["program"], "expected": "results", "observed": "child process exit status %s" % rc}
    if inp.get("target") == "native":
        import json as _json
        rc, lines, err = _run_native_child("quick", False, False, ["@" + _json.dumps(inp["args"]), inp["function"]])
        for l in lines:
            if "done" in l:
                if l["bad"]:
                    return False, {"target": "native", "function": inp["function"], "args": inp["args"], "expected": l["bad"][0]["expected"], "observed": l["bad"][0]["observed"]}
                return True, {"target": "native", "function": inp["function"], "args": inp["args"], "observed": "equals the reference"}
        return False, {"target": "native", "function": inp["function"], "args": inp["args"], "expected": "a result", "observed": "child process exit status %s" % rc}
    if "program" in inp:
        from contracts import wasmprogs as WP
        pr = [q for q in WP.PROGRAMS if q[0] == inp["program"]][0]
        bad = WP.run_program(pr)
        if bad:
            rnd_i, ci, call, want, got = bad[0]
            return False, {"program": pr[0], "instantiation": rnd_i + 1, "call": "%s%r" % (call[0], tuple(call[1])), "expected": repr(want), "observed": repr(got)}
        return True, {"program": pr[0], "observed": "every call of both instantiations equals the reference"}
    args = [_unj(a) for a in inp["args"]]
    ok, want, got, exc = _eval_one(inp["function"], args)
    detail = {"function": inp["function"], "args": inp["args"], "expected": repr(want), "observed": repr(got) + (" (%s)" % exc if exc else "")}
    return ok, detail


ASSUMED = ["gen_binop contracts: the WebAssembly bitwise operators on n-bit patterns equal Python's & | ^ on the signed interpretations (two's-complement identity); "
           "IR semantics as stated in contracts/c24.py (shifts defined for 0 <= count < n only: larger counts are left to the back ends and exercised by the bounded stand-in)",
           "finite doubles are modelled by their exact real value as arbitrary reals (over-approximation, sound for proofs; pyvc.symfloat); no floating-point arithmetic is modelled",
           "f32 operands are doubles that happen to be representable in binary32: the contracts quantify over every double (a superset)",
           "the spec functions of contracts/c39.py are the WebAssembly integer operator definitions (irotl, irotr, iclz, ictz, ipopcnt, iextendM_s)"]
NOT_COVERED = ["whole-pipeline agreement with a reference engine on arbitrary generated modules (outside contract reach; the bounded stand-in covers the single-instruction "
               "module and ten programs on both targets, without trapping inputs on the native target)", "imports, start functions, bulk-memory and reference-type instructions", "rounding to binary32 (_round_f32, struct.pack in C) and the value of sqrt for positive operands: assumed contracts here, exercised by the bounded stand-in only",
               "reinterpret helpers (struct pack / unpack of float bit patterns): bounded stand-in only"]
