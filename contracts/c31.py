"""C31 -- regular expressions (ppci/lang/tools/regex): parser, Brzozowski-derivative DFA construction,
maximal-munch scanner.

Bounded stand-in only in this revision (the derivative algebra is not yet under deductive contract):
the postconditions taken from the property are evaluated at run time on the real code:
  * for EVERY regular expression text generated from the supported syntax up to a stated size
    (literals, escapes, '.', character classes and ranges, grouping, alternation, concatenation, * + ?)
    and EVERY string over a small alphabet up to a stated length:
        the DFA built by compile(parse(text)) accepts the string  <=>  re.fullmatch(text, string)
    (Python's `re` is the reference engine; the generated syntax is the common subset of both);
  * for token-description sets drawn from a corpus x EVERY input string up to a stated length:
    scan() yields exactly the maximal-munch tokenisation computed with `re`, and raises ValueError
    exactly when no tokenisation exists."""
import itertools
import multiprocessing as mp
import random
import re

CONTRACTS = []
LEVEL = "exploration"
ALPHA = "abc"
STR_ALPHA = "abcd."


class _Hang(BaseException):
    pass


def _alarm(signum, frame):
    raise _Hang()


def _guard(fn, seconds=5):
    import signal
    old = signal.signal(signal.SIGALRM, _alarm)
    signal.alarm(seconds)
    try:
        return fn()
    finally:
        signal.alarm(0)
        signal.signal(signal.SIGALRM, old)


def gen_regexes(depth):
    """regex texts of nesting depth <= depth over ALPHA"""
    atoms = ["a", "b", "c", ".", "[ab]", "[a-c]", "[bc]", r"\.", r"\*"]
    level = list(atoms)
    allr = list(atoms)
    for _ in range(depth):
        new = []
        base = allr[:14]
        for x in base:
            g = x if len(x) == 1 or x.startswith("[") or x.startswith("\\") else "(%s)" % x
            new += [g + "*", g + "+", g + "?"]
        for x, y in itertools.product(base[:9], base[:9]):
            new.append(x + y)
            new.append("%s|%s" % (x, y))
            new.append("(%s|%s)%s" % (x, y, "c"))
            new.append("%s(%s|%s)" % ("a", x, y))
        allr += new
    seen = []
    s = set()
    for r in allr:
        if r not in s:
            s.add(r)
            seen.append(r)
    return seen


def random_regex(rng, size):
    if size <= 1:
        return rng.choice(["a", "b", "c", ".", "[ab]", "[a-c]", r"\.", "d"])
    k = rng.randrange(6)
    if k == 0:
        return random_regex(rng, size // 2) + random_regex(rng, size - size // 2)
    if k == 1:
        return "(%s|%s)" % (random_regex(rng, size // 2), random_regex(rng, size - size // 2))
    if k == 2:
        return "%s|%s" % (random_regex(rng, size // 2), random_regex(rng, size - size // 2))
    if k == 3:
        return "(%s)%s" % (random_regex(rng, size - 1), rng.choice("*+?"))
    if k == 4:
        return random_regex(rng, size - 1) + random_regex(rng, 1)
    return "(%s)" % random_regex(rng, size - 1)


def dfa_accepts(prog, s):
    from ppci.lang.tools.regex.scanner import pick_transition
    transitions, accepts, error = prog
    state = 0
    for ch in s:
        state = pick_transition(transitions, state, ord(ch))
        if state == error:
            return False
    return bool(accepts[state])


def check_regex(text, maxlen):
    from ppci.lang.tools import regex
    errs = []
    try:
        ref = re.compile(text, re.DOTALL)
    except re.error:
        return None
    try:
        prog = _guard(lambda: regex.compile(regex.parse(text)), 5)
    except _Hang:
        return "timeout"        # DFA construction did not finish within 5 s: counted separately, not a verdict (time-dependent)
    except RecursionError:
        return "timeout"
    except Exception as e:
        return ["compile(parse(%r)) succeeds, got %r" % (text, e)]
    for n in range(maxlen + 1):
        for t in itertools.product(STR_ALPHA, repeat=n):
            s = "".join(t)
            want = ref.fullmatch(s) is not None
            try:
                got = dfa_accepts(prog, s)
            except Exception as e:
                errs.append("matching %r against %r raises nothing, got %r" % (s, text, e))
                break
            if got != want:
                errs.append("regex %r %s %r (reference engine: %s)" % (text, "accepts" if want else "rejects", s, want))
                break
        if errs:
            break
    return errs


def ref_split(patterns, text):
    """maximal munch with `re` as judge: list of tokens, or None if some position has no non-empty match"""
    comp = [re.compile(p, re.DOTALL) for p in patterns]
    pos = 0
    out = []
    while pos < len(text):
        best = 0
        for c in comp:
            for end in range(len(text), pos, -1):
                if c.fullmatch(text, pos, end):
                    best = max(best, end - pos)
                    break
        if best == 0:
            return None
        out.append(text[pos:pos + best])
        pos += best
    return out


SCAN_SETS = [
    [r"[0-9]+\.[0-9]+", "[0-9]+", r"\.", "[a-z]+", " +"],
    ["abc", "a", "b"],
    [r"\.\.\.", r"\.", "[a-z]+"],
    ["ab", "abab*c", "b"],
    ["a+b", "a", "b+"],
    ["(ab)+", "a", "b", "c"],
]
SCAN_ALPHA = {0: "1.a ", 1: "abcd", 2: "a.b", 3: "abc", 4: "ab", 5: "abc"}


def check_scan(idx, text):
    from ppci.lang.tools import regex
    from ppci.lang.tools.regex.regex import ExpressionVector
    pats = SCAN_SETS[idx]
    try:
        vec = ExpressionVector([("t%d" % i, regex.parse(p)) for i, p in enumerate(pats)])
        prog = regex.compile(vec)
    except Exception as e:
        return ["token descriptions %r parse and compile, got %r" % (pats, e)]
    want = ref_split(pats, text)
    try:
        got = list(regex.scan(prog, text))
    except ValueError:
        got = None
    except Exception as e:
        return ["scan(%r, %r) raises only ValueError, got %r" % (pats, text, e)]
    if got != want:
        return ["scan of %r with tokens %r == %r (maximal munch; None = no tokenisation), got %r" % (text, pats, want, got)]
    return []


TIMEOUTS = []


def _chunk_regex(args):
    texts, maxlen = args
    del TIMEOUTS[:]
    ev = 0
    bad = []
    for t in texts:
        r = check_regex(t, maxlen)
        if r is None:
            continue
        if r == "timeout":
            TIMEOUTS.append(t)
            continue
        ev += 1
        if r and len(bad) < 3:
            bad.append(({"kind": "regex", "text": t, "maxlen": maxlen}, r[0]))
    return ev, bad, list(TIMEOUTS)


def _chunk_scan(args):
    idx, maxlen = args
    ev = 0
    bad = []
    for n in range(maxlen + 1):
        for t in itertools.product(SCAN_ALPHA[idx], repeat=n):
            text = "".join(t)
            ev += 1
            r = check_scan(idx, text)
            if r and len(bad) < 3:
                bad.append(({"kind": "scan", "set": idx, "text": text}, r[0]))
    return ev, bad


def bounded(tier_name, rnd):
    depth = 1 if tier_name == "quick" else 2
    maxlen = 4 if tier_name == "quick" else 5
    texts = gen_regexes(depth)
    seed0 = rnd.randrange(1 << 30)
    rng = random.Random(seed0)
    nrand = 1500 if tier_name == "quick" else 5000
    texts += [random_regex(rng, rng.randrange(2, 9)) for _ in range(nrand)]
    chunks = [(texts[i::32], maxlen) for i in range(32)]
    with mp.get_context("fork").Pool(16) as pool:
        res = pool.map(_chunk_regex, chunks)
        res_s = pool.map(_chunk_scan, [(i, 6 if tier_name == "quick" else 7) for i in range(len(SCAN_SETS))])
    ev = sum(r[0] for r in res) + sum(r[0] for r in res_s)
    timeouts = [t for r in res for t in r[2]]
    vio = []
    for bad in [r[1] for r in res] + [r[1] for r in res_s]:
        for inp, what in bad:
            if len(vio) < 6:
                vio.append({"name": what, "input": inp, "observed": what})
    return {"evaluations": ev, "distinct_nontrivial": ev, "exhaustive": False,
            "rule": "%d regular-expression texts (systematic up to nesting depth %d + %d seeded random, seed %d) each matched against EVERY string over %r up to length %d and "
                    "compared with re.fullmatch; %d token-description sets x every input up to length 6/7 over a per-set alphabet compared with a maximal-munch reference; "
                    "evaluations counts (regex, all strings) and (token set, string) cases" % (len(texts), depth, nrand, seed0, STR_ALPHA, maxlen, len(SCAN_SETS)),
            "bound": "regex nesting depth <= %d / random size <= 8; strings up to length %d" % (depth, maxlen), "violations": vio,
            "compile_timeouts": {"count": len(timeouts), "examples": timeouts[:5],
                                 "note": "regexes whose DFA construction did not finish within 5 s are skipped, not judged (time-dependent)"},
            "samples": [{"regex": "ab|cd", "strings": "all over 'abcd.' up to length %d" % maxlen}, {"tokens": SCAN_SETS[0], "input": "12.5 x"}]}


def replay_bounded(inp):
    if inp["kind"] == "terminates":
        from ppci.lang.tools import regex
        try:
            _guard(lambda: regex.compile(regex.parse(inp["text"])), inp.get("seconds", 10))
        except (_Hang, RecursionError):
            return False, {"case": inp, "failed": "DFA construction finishes within %d s" % inp.get("seconds", 10)}
        return True, {"case": inp, "observed": "DFA construction finishes"}
    if inp["kind"] == "regex":
        r = check_regex(inp["text"], inp.get("maxlen", 4))
    else:
        r = check_scan(inp["set"], inp["text"])
    if r:
        return False, {"case": inp, "failed": r[:2]}
    return True, {"case": inp, "observed": "postcondition holds"}


ASSUMED = ["Python's re module (fullmatch, DOTALL) is the reference regex engine for the generated syntax subset"]
NOT_COVERED = ["regular expressions / strings beyond the stated bounds; the derivative algebra (nu, derivative, smart constructors) is not under deductive contract in this revision",
               "negated character classes ([^...]: the parser raises NotImplementedError), code generation (codegen.py)"]
