"""C36 (slice) -- Python front-end: operator mapping (PythonToIrCompiler.binop_map, the compare map of
gen_compare) against CPython semantics on 64-bit integers, plus a bounded differential stand-in for
statement lowering.

Deductive part: for every entry `ast operator -> IR operator` the obligation is, for all a, b in the
64-bit range whose CPython result stays in 64 bits:  CPython(a op b) == IR(a irop b)  where IR integer
division truncates toward zero (C24/C38).  ast.Div is demanded for floats only (on ints CPython
yields a float: outside the subset).
Bounded part (labelled, never counted as proved): a corpus of small functions covering every statement
kind of the subset is compiled with python_to_ir, executed through ir_to_python and compared with
CPython over an argument grid."""
import ast
import io
import itertools
from pyvc.engine import Contract, make_value
from pyvc.spec import and_, or_, not_, implies, ite, iff, tdiv, b2i, tier
from pyvc.sym import Undecided

M = "ppci.lang.python.python2ir"
LO, HI = -(1 << 63), (1 << 63)


def in64(x):
    return and_(x >= LO, x < HI)


PY = {  # CPython semantics of the ast operator on ints: (defined, value)
    ast.Add: lambda a, b: (True, lambda: a + b),
    ast.Sub: lambda a, b: (True, lambda: a - b),
    ast.Mult: lambda a, b: (True, lambda: a * b),
    ast.FloorDiv: lambda a, b: (b != 0, lambda: a // b),
    ast.Mod: lambda a, b: (b != 0, lambda: a % b),
    ast.LShift: lambda a, b: (and_(b >= 0, b < 64), lambda: a << b),
    ast.RShift: lambda a, b: (and_(b >= 0, b < 64), lambda: a >> b),
    ast.BitAnd: lambda a, b: (True, lambda: a & b),
    ast.BitOr: lambda a, b: (True, lambda: a | b),
    ast.BitXor: lambda a, b: (True, lambda: a ^ b),
}


def wrap64(x):
    u = x % (1 << 64)
    return ite(u >= HI, lambda: u - (1 << 64), lambda: u)


def ir_binop(op, a, b):
    """IR semantics of the operator string on i64 operands"""
    if op == "+":
        return wrap64(a + b)
    if op == "-":
        return wrap64(a - b)
    if op == "*":
        return wrap64(a * b)
    if op == "/":
        return wrap64(tdiv(a, b))
    if op == "%":
        return wrap64(a - b * tdiv(a, b))
    if op == "<<":
        return wrap64(a << b)
    if op == ">>":
        return wrap64(a >> b)
    if op == "&":
        return a & b
    if op == "|":
        return a | b
    if op == "^":
        return a ^ b
    raise Undecided("no IR specification for operator %r" % (op,))


def _table():
    from ppci.lang.python.python2ir import PythonToIrCompiler
    return PythonToIrCompiler.binop_map


def _mk2(c, g):
    a = make_value(("range", LO, HI), "a", c)
    b = make_value(("range", LO, HI), "b", c)
    return {"args": [], "env": {"a": a, "b": b}, "inputs": {"a": a, "b": b}}


def _samples(g, rnd):
    vals = [LO, LO + 1, -7, -3, -2, -1, 0, 1, 2, 3, 7, 63, HI - 1, 1 << 31, -(1 << 31), 100, -100]
    return [{"a": rnd.choice(vals), "b": rnd.choice(vals)} for _ in range(40)]


def _binop_call(fn, env, args, kwargs):
    t = _table()
    if env.astop not in t:
        raise Undecided("contract stale: %s is no longer in binop_map" % env.astop.__name__)
    return t[env.astop]


def _binop_pre(e):
    d, v = PY[e.astop](e.a, e.b)
    yield d
    yield in64(v())


CONTRACTS = []
for _op in [k for k in _table() if k in PY]:
    CONTRACTS.append(Contract(
        M + ":PythonToIrCompiler.gen_binop", "C36", label="binop_map[ast.%s]" % _op.__name__, grid=[{"astop": _op}],
        make=_mk2, call=_binop_call, sample_inputs=_samples, replay_args=lambda g, v: {"args": [], "env": dict(v)},
        requires=_binop_pre,
        ensures=lambda e: [("CPython(a %s b) == IR(a %s b) on i64" % (e.astop.__name__, e.result), PY[e.astop](e.a, e.b)[1]() == ir_binop(e.result, e.a, e.b))]))


# ---- floor division: the real gen_floor_div on a recording builder, its control-flow skeleton executed symbolically ----
def _floor_div_skeleton():
    from ppci.lang.python.python2ir import PythonToIrCompiler
    from ppci import ir

    class Rec:
        """stands in for irutils.Builder: real IR nodes, blocks recorded but not linked into a function"""

        def __init__(self):
            self.blocks, self.n = {}, 0
            self.entry = self.block = self.new_block("entry")

        def new_block(self, name=None):
            self.n += 1
            b = ir.Block(name or "b%d" % self.n)
            self.blocks[b] = []
            return b

        def set_block(self, b):
            self.block = b

        def emit(self, ins):
            self.blocks[self.block].append(ins)
            return ins

        def emit_binop(self, a, op, b, ty):
            if isinstance(b, int):
                b = self.emit(ir.Const(b, "const", ty))
            return self.emit(ir.Binop(a, op, b, "binop", ty))

        def emit_const(self, value, ty):
            return self.emit(ir.Const(value, "num", ty))

        def emit_jump(self, b):
            self.emit(ir.Jump(b))

    class Stub(PythonToIrCompiler):
        def __init__(self):
            self.builder = Rec()

        def emit(self, ins):
            return self.builder.emit(ins)

        def error(self, node, message):
            raise AssertionError(message)
    st = Stub()
    a, b = ir.Parameter("a", ir.i64), ir.Parameter("b", ir.i64)
    res = st.gen_floor_div(None, a, b, ir.i64)
    return st.builder, res


def _walk_skeleton(rec, node, a, b):
    """value of `node` when the recorded skeleton runs on operands a, b under IR semantics (i64); conditional jumps fork the path"""
    from ppci import ir
    vals, prev, blk = {}, None, rec.entry

    def val(v):
        if isinstance(v, ir.Parameter):
            return a if v.name == "a" else b
        if id(v) in vals:
            return vals[id(v)]
        raise Undecided("contract stale: value %s used before it is defined" % v)
    CMP_ = {"==": lambda x, y: x == y, "!=": lambda x, y: x != y, "<": lambda x, y: x < y, ">": lambda x, y: x > y, "<=": lambda x, y: x <= y, ">=": lambda x, y: x >= y}
    for _ in range(32):
        nxt = None
        for ins in rec.blocks[blk]:
            if isinstance(ins, ir.CJump):
                nxt = ins.lab_yes if bool(CMP_[ins.cond](val(ins.a), val(ins.b))) else ins.lab_no
                break
            if isinstance(ins, ir.Jump):
                nxt = ins.target
                break
            if isinstance(ins, ir.Phi):
                vals[id(ins)] = val(ins.inputs[prev])
            elif isinstance(ins, ir.Binop):
                vals[id(ins)] = ir_binop(ins.operation, val(ins.a), val(ins.b))
            elif isinstance(ins, ir.Const):
                vals[id(ins)] = ins.value
            else:
                raise Undecided("contract stale: %s in the floor-division lowering" % type(ins).__name__)
            if ins is node:
                return vals[id(ins)]
        if nxt is None:
            raise Undecided("contract stale: the skeleton ends before the result is defined")
        prev, blk = blk, nxt
    raise Undecided("contract stale: skeleton longer than 32 blocks")


def _floor_pre(e):
    yield e.b != 0
    yield in64(e.a // e.b)


def _floor_call(fn, env, args, kwargs):
    rec, node = _floor_div_skeleton()
    return _walk_skeleton(rec, node, env.a, env.b)


CONTRACTS.append(Contract(
    M + ":PythonToIrCompiler.gen_floor_div", "C36", label="gen_floor_div (a // b): guarded lowering", grid=[{}],
    make=_mk2, call=_floor_call, sample_inputs=lambda g, rnd: _samples(g, rnd) + [{"a": a, "b": b} for a in (-7, 7, -8, 8, 0, LO, HI - 1) for b in (2, -2, 3, -3, 1, -1) if not (a == LO and b == -1)],
    replay_args=lambda g, v: {"args": [], "env": dict(v)},
    requires=_floor_pre,
    ensures=lambda e: [("IR value of the emitted control-flow skeleton == CPython (a // b), for all 64-bit operands incl. inexact divisions of operands with different signs",
                        e.result == e.a // e.b)]))


# compare map: extracted by running the real gen_compare on a stub compiler
CMP = {ast.Gt: lambda a, b: a > b, ast.GtE: lambda a, b: a >= b, ast.Lt: lambda a, b: a < b, ast.LtE: lambda a, b: a <= b,
       ast.Eq: lambda a, b: a == b, ast.NotEq: lambda a, b: a != b}
IRCMP = {">": lambda a, b: a > b, ">=": lambda a, b: a >= b, "<": lambda a, b: a < b, "<=": lambda a, b: a <= b,
         "==": lambda a, b: a == b, "!=": lambda a, b: a != b}


def _compare_op(astop):
    from ppci.lang.python.python2ir import PythonToIrCompiler
    from ppci import ir

    class Stub(PythonToIrCompiler):
        def __init__(self):
            self.captured = None

        def gen_expr(self, node):
            return ir.Const(0, "c", ir.i64)

        def emit(self, ins):
            self.captured = ins
            return ins
    s = Stub()
    node = ast.Compare(left=ast.Name(id="a", ctx=ast.Load()), ops=[astop()], comparators=[ast.Name(id="b", ctx=ast.Load())])
    yes, no = ir.Block("yes"), ir.Block("no")
    s.gen_compare(node, yes, no)
    j = s.captured
    return j.cond, (j.lab_yes is yes and j.lab_no is no)


for _op in CMP:
    CONTRACTS.append(Contract(
        M + ":PythonToIrCompiler.gen_compare", "C36", label="gen_compare[ast.%s]" % _op.__name__, grid=[{"astop": _op}],
        make=_mk2, call=lambda fn, env, a, k: _compare_op(env.astop), sample_inputs=_samples, replay_args=lambda g, v: {"args": [], "env": dict(v)},
        ensures=lambda e: [("branch targets: yes-block on true, no-block on false", e.result[1]),
                           ("CPython(a %s b) <=> IR condition" % e.astop.__name__, iff(CMP[e.astop](e.a, e.b), IRCMP[e.result[0]](e.a, e.b)))]))


# ---- bounded differential stand-in for statement lowering ------------------------------------------------------
PROGRAMS = [
    ("for1_stop_modified", "def f(a: int, b: int) -> int:\n    s = 0\n    n = b\n    for i in range(n):\n        n = n - 1\n        s = s + i\n    return s * 10 + n\n"),
    ("for2_stop_modified", "def f(a: int, b: int) -> int:\n    s = 0\n    n = b\n    for i in range(a, n):\n        n = n + 1\n        s = s + i\n        if s > 50:\n            break\n    return s\n"),
    ("for_var_after", "def f(a: int, b: int) -> int:\n    i = 99\n    s = 0\n    for i in range(a, b):\n        s = s + 1\n    return s * 100 + i\n"),
    ("for_continue", "def f(a: int, b: int) -> int:\n    s = 0\n    for i in range(b):\n        if i == a:\n            continue\n        s = s + i\n    return s\n"),
    ("for_break", "def f(a: int, b: int) -> int:\n    s = 0\n    for i in range(b):\n        if i > a:\n            break\n        s = s + i\n    return s\n"),
    ("swap", "def f(a: int, b: int) -> int:\n    x, y = a, b\n    x, y = y, x\n    return x * 1000 + y\n"),
    ("rotate3", "def f(a: int, b: int) -> int:\n    x, y, z = a, b, 5\n    x, y, z = y, z, x\n    return x * 10000 + y * 100 + z\n"),
    ("tuple_dep", "def f(a: int, b: int) -> int:\n    x = a\n    y = b\n    x, y = x + y, x - y\n    return x * 1000 + y\n"),
    ("while_break", "def f(a: int, b: int) -> int:\n    i = 0\n    s = 0\n    while i < b:\n        i = i + 1\n        if i == a:\n            break\n        s = s + i\n    return s * 100 + i\n"),
    ("while_continue", "def f(a: int, b: int) -> int:\n    i = 0\n    s = 0\n    while i < b:\n        i = i + 1\n        if i == a:\n            continue\n        s = s + i\n    return s\n"),
    ("nested", "def f(a: int, b: int) -> int:\n    s = 0\n    for i in range(a):\n        for j in range(i, b):\n            if j == 3:\n                break\n            s = s + i * j\n    return s\n"),
    ("if_elif", "def f(a: int, b: int) -> int:\n    if a < b:\n        r = 1\n    elif a == b:\n        r = 2\n    else:\n        r = 3\n    return r\n"),
    ("bool_and_or", "def f(a: int, b: int) -> int:\n    r = 0\n    if a > 0 and b > 0:\n        r = r + 1\n    if a > 2 or b < 1:\n        r = r + 10\n    if a >= b and (a != 3 or b <= 0):\n        r = r + 100\n    return r\n"),
    ("augassign", "def f(a: int, b: int) -> int:\n    x = a\n    x += b\n    x *= 3\n    x -= a\n    return x\n"),
    ("arith", "def f(a: int, b: int) -> int:\n    return (a + b) * (a - b) + a * 7 - b\n"),
    ("floordiv_nonneg", "def f(a: int, b: int) -> int:\n    x = a * a + 1\n    y = b * b + 1\n    return x // y\n"),
    ("call", "def g(x: int, y: int) -> int:\n    return x * 2 - y\n\ndef f(a: int, b: int) -> int:\n    return g(a, b) + g(b, a) * 3\n"),
    ("call_in_loop", "def g(x: int) -> int:\n    return x + 1\n\ndef f(a: int, b: int) -> int:\n    s = 0\n    for i in range(g(a), g(b)):\n        s = s + g(i)\n    return s\n"),
    ("float_arith", "def f(a: float, b: float) -> float:\n    return (a + b) * 0.5 - a * b\n"),
    ("float_div", "def f(a: float, b: float) -> float:\n    return a / (b * b + 1.0)\n"),
    ("bool_chain3", "def f(a: int, b: int) -> int:\n    r = 0\n    if a > 0 and b > 0 and a != b:\n        r = r + 1\n    if a < 0 or b < 0 or a == b:\n        r = r + 10\n    if a > 1 and (b > 1 or a > 3) and b != 2:\n        r = r + 100\n    if a == 9 or b == 9 or a > b or b > 4:\n        r = r + 1000\n    return r\n"),
    ("while_cond_chain", "def f(a: int, b: int) -> int:\n    i = 0\n    while i < 10 and i != a and i * 2 != b:\n        i = i + 1\n    return i\n"),
    ("if_nested_else", "def f(a: int, b: int) -> int:\n    r = 0\n    if a > 0:\n        if b > 0:\n            r = 1\n        else:\n            r = 2\n    else:\n        if b > a:\n            r = 3\n    return r * 10 + a\n"),
    ("floordiv_signs", "def f(a: int, b: int) -> int:\n    q = a // (b * 2 + 1)\n    r = (0 - a) // 3\n    s = a\n    s //= (0 - 2)\n    return q * 10000 + r * 100 + s\n"),
    ("loop_swap", "def f(a: int, b: int) -> int:\n    x = a\n    y = 7\n    z = 1\n    for i in range(b):\n        x, y = y, x\n        z = z + x\n    return x * 10000 + y * 100 + z\n"),
    ("loop_rotate_fib", "def f(a: int, b: int) -> int:\n    x = 0\n    y = 1\n    z = a\n    i = 0\n    while i < b:\n        x, y, z = y, z, x + y\n        i = i + 1\n    return x * 10000 + y * 100 + z\n"),
    ("loop_acc_mul", "def f(a: int, b: int) -> int:\n    p = 1\n    i = 0\n    while i < b:\n        p = p * 3 + a\n        i += 1\n    return p\n"),
    ("for_target_assigned", "def f(a: int, b: int) -> int:\n    s = 0\n    for i in range(b):\n        if i == a:\n            i = i + 2\n        s = s + i\n    return s * 100 + b\n"),
]


class _Timeout(BaseException):
    pass


def _with_alarm(fn, seconds):
    """run fn(); a compiled function that does not terminate (the CPython reference did) must end the case, not hang the check"""
    import signal

    def on_alarm(signum, frame):
        raise _Timeout()
    try:
        prev = signal.signal(signal.SIGALRM, on_alarm)
    except ValueError:          # not in the main thread: run unguarded
        return fn()
    signal.alarm(seconds)
    try:
        return fn()
    finally:
        signal.alarm(0)
        signal.signal(signal.SIGALRM, prev)


def _run_program(name, src, args_list):
    from ppci.lang.python import python_to_ir, ir_to_python
    ns_ref = {}
    exec(src, ns_ref)
    m = python_to_ir(io.StringIO(src))
    out = io.StringIO()
    ir_to_python([m], out)
    ns = {}
    exec(out.getvalue(), ns)
    bad = []
    n = 0
    for args in args_list:
        n += 1
        want = ns_ref["f"](*args)
        try:
            got = _with_alarm(lambda: ns["f"](*args), 20)
        except _Timeout:
            got = "no result after 20 s (CPython returned at once)"
        except Exception as e:
            got = "raised %r" % (e,)
        if got != want:
            bad.append({"name": "compiled %s%r == CPython" % (name, tuple(args)), "input": {"program": name, "source": src, "args": list(args)},
                        "expected": repr(want), "observed": repr(got)})
            if len(bad) >= 3:
                break
    return n, bad


# ---- generated programs of the subset ------------------------------------------------------------------------------
def gen_function(r):
    """source text of one function f(a: int, b: int) -> int of the supported subset: definite assignment, loops that
    terminate (for over small ranges; while loops advance a private counter first), no division"""
    VARS = ["x", "y", "z"]
    cnt = [0]

    def atom():
        q = r.random()
        if q < 0.55:
            return r.choice(VARS + ["a", "b"])
        return r.choice(["0", "1", "2", "3", "5", "7", "(0 - 1)", "(0 - 4)"])      # no unary minus: the front end rejects it with a diagnostic

    def expr(d=0):
        q = r.random()
        if d >= 2 or q < 0.35:
            return atom()
        op = r.choice(["+", "-", "+", "-", "*"])
        return "(%s %s %s)" % (expr(d + 1), op, expr(d + 1))

    def cmp_():
        return "%s %s %s" % (expr(1), r.choice(["<", "<=", ">", ">=", "==", "!="]), expr(1))

    def cond(d=0):
        q = r.random()
        if d >= 1 or q < 0.5:
            return cmp_()
        k = r.choice([2, 2, 3])
        op = r.choice([" and ", " or "])
        parts = [("(%s)" % cond(d + 1)) if r.random() < 0.3 else cmp_() for _ in range(k)]
        return op.join(parts)

    def block(ind, depth, in_loop):
        out = []
        for _ in range(r.randint(1, 3)):
            q = r.random()
            pad = "    " * ind
            if q < 0.40 or depth >= 3:
                v = r.choice(VARS)
                if r.random() < 0.25:
                    out.append("%s%s %s= %s" % (pad, v, r.choice(["+", "-", "*"]), atom()))
                else:
                    out.append("%s%s = %s" % (pad, v, expr()))
            elif q < 0.62:
                out.append("%sif %s:" % (pad, cond()))
                out += block(ind + 1, depth + 1, in_loop)
                for _ in range(r.choice([0, 0, 1])):
                    out.append("%selif %s:" % (pad, cond()))
                    out += block(ind + 1, depth + 1, in_loop)
                if r.random() < 0.5:
                    out.append("%selse:" % pad)
                    out += block(ind + 1, depth + 1, in_loop)
            elif q < 0.80:
                cnt[0] += 1
                i = "i%d" % cnt[0]
                rng = r.choice(["range(%d)" % r.randint(0, 4), "range(%d, %d)" % (r.randint(0, 2), r.randint(0, 5)), "range(a, %d)" % r.randint(0, 4), "range(b)"])
                out.append("%sfor %s in %s:" % (pad, i, rng))
                body = block(ind + 1, depth + 1, True)
                if r.random() < 0.5:
                    body.append("%s%s = %s + %s" % ("    " * (ind + 1), r.choice(VARS), r.choice(VARS), i))
                out += body
            elif q < 0.90:
                cnt[0] += 1
                c = "c%d" % cnt[0]
                out.append("%s%s = 0" % (pad, c))
                if r.random() < 0.4:
                    out.append("%swhile %s < %d and %s:" % (pad, c, r.randint(1, 4), cmp_()))
                else:
                    out.append("%swhile %s < %d:" % (pad, c, r.randint(1, 4)))
                out.append("%s%s = %s + 1" % ("    " * (ind + 1), c, c))
                out += block(ind + 1, depth + 1, True)
            elif in_loop:
                out.append("%sif %s:" % (pad, cmp_()))
                out.append("%s%s" % ("    " * (ind + 1), r.choice(["break", "continue"])))
            else:
                out.append("%s%s, %s = %s, %s" % (pad, VARS[0], VARS[1], VARS[1], VARS[0]))
        return out
    lines = ["def f(a: int, b: int) -> int:", "    x = a", "    y = b", "    z = %d" % r.randint(0, 3)]
    lines += block(1, 0, False)
    lines.append("    return (x * 1000003 + y * 1009 + z)")
    return "\n".join(lines) + "\n"


class _Guard(ast.NodeTransformer):
    """reference copy only: every arithmetic result is checked to stay inside 62 bits (else the pair is not judged)"""

    def visit_BinOp(self, node):
        self.generic_visit(node)
        return ast.copy_location(ast.Call(func=ast.Name(id="_chk", ctx=ast.Load()), args=[node], keywords=[]), node)

    def visit_AugAssign(self, node):
        self.generic_visit(node)
        new = ast.Assign(targets=[node.target], value=ast.Call(func=ast.Name(id="_chk", ctx=ast.Load()), args=[
            ast.BinOp(left=ast.Name(id=node.target.id, ctx=ast.Load()), op=node.op, right=node.value)], keywords=[]))
        return ast.copy_location(new, node)


class _Overflow(Exception):
    pass


def _chk(v):
    if not -(1 << 62) < v < (1 << 62):
        raise _Overflow()
    return v


def _run_generated(name, src, args_list):
    from ppci.lang.python import python_to_ir, ir_to_python
    tree = ast.fix_missing_locations(_Guard().visit(ast.parse(src)))
    ns_ref = {"_chk": _chk}
    exec(compile(tree, "<reference>", "exec"), ns_ref)
    try:
        m = python_to_ir(io.StringIO(src))
        out = io.StringIO()
        ir_to_python([m], out)
        ns = {}
        exec(out.getvalue(), ns)
    except Exception as ex:
        return 1, 0, [{"name": "generated function %s compiles" % name, "input": {"program": name, "source": src, "args": list(args_list[0]), "generated": True},
                       "expected": "compiles", "observed": "raised %s: %s" % (type(ex).__name__, str(ex)[:120])}]
    n = judged = 0
    bad = []
    for args in args_list:
        n += 1
        try:
            want = ns_ref["f"](*args)
        except _Overflow:
            continue
        judged += 1
        try:
            got = _with_alarm(lambda: ns["f"](*args), 20)
        except _Timeout:
            got = "no result after 20 s (CPython returned at once)"
        except Exception as e:
            got = "raised %r" % (e,)
        if got != want:
            bad.append({"name": "compiled %s%r == CPython" % (name, tuple(args)), "input": {"program": name, "source": src, "args": list(args), "generated": True},
                        "expected": repr(want), "observed": repr(got)})
            break
    return n, judged, bad


def bounded(tier_name, rnd):
    rng = range(-2, 7) if tier_name == "quick" else range(-4, 12)
    ints = [(a, b) for a in rng for b in rng]
    floats = [(a * 0.5, b * 0.25) for a in range(-3, 4) for b in range(-3, 4)]
    evals = 0
    vio = []
    for name, src in PROGRAMS:
        n, bad = _run_program(name, src, floats if "float" in src else ints)
        evals += n
        vio += bad
    import random
    ngen = 150 if tier_name == "quick" else 1500
    r = random.Random(20260924)
    gargs = [(a, b) for a in (-3, 0, 1, 2, 4) for b in (-2, 0, 1, 3, 5)]
    gen_judged = 0
    for i in range(ngen):
        src = gen_function(r)
        n, judged, bad = _run_generated("gen%d" % i, src, gargs)
        evals += n
        gen_judged += judged
        if len(vio) < 8:
            vio += bad
    return {"evaluations": evals, "distinct_nontrivial": evals, "exhaustive": False, "generated_functions": ngen, "generated_pairs_judged": gen_judged,
            "rule": ("generated part: %d functions from a grammar of the subset (assignments, + - *, augmented and tuple assignment, if / elif / else with and / or chains of up to 3 operands, for over range "
                     "forms incl. range(a, k) and range(b), while with a private counter, break / continue, nesting depth <= 3) x 25 argument pairs; a pair is judged when every intermediate value of the "
                     "CPython run stays inside 62 bits.  Fixed part: " % ngen) +
                    "every program of a fixed corpus (%d functions covering for/while/break/continue/if/bool-ops/tuple and augmented assignment/calls/"
                    "float arithmetic) x every argument pair of the grid %s; compiled with python_to_ir, run through ir_to_python, compared with CPython; "
                    "each (program, arguments) pair is distinct" % (len(PROGRAMS), "%d..%d" % (rng[0], rng[-1])),
            "programs": len(PROGRAMS), "samples": [{"program": PROGRAMS[0][0], "source": PROGRAMS[0][1], "args": list(ints[0])}, {"program": PROGRAMS[5][0], "source": PROGRAMS[5][1], "args": list(ints[-1])}], "bound": "fixed corpus, integer arguments in %d..%d" % (rng[0], rng[-1]), "violations": vio}


def _floordiv_region(a, b):
    """operands for which floor and truncating division differ"""
    return and_(b != 0, a % b != 0, not_(iff(a < 0, b < 0)))


KNOWN_HELPERS = {"floordiv_differs": _floordiv_region}

def replay_bounded(inp):
    if inp.get("generated"):
        n, judged, bad = _run_generated(inp["program"], inp["source"], [tuple(inp["args"])])
        if bad:
            return False, bad[0]
        return True, {"program": inp["program"], "args": inp["args"], "observed": "compiled result equals CPython"}
    n, bad = _run_program(inp["program"], inp["source"], [tuple(inp["args"])])
    if bad:
        return False, bad[0]
    return True, {"program": inp["program"], "args": inp["args"], "observed": "compiled result equals CPython"}


ASSUMED = ["IR integer semantics: + - * wrap modulo 2^64, / truncates toward zero (as stated by C24 / C38)",
           "bounded stand-in executes the IR through ppci's own ir_to_python back end (whose arithmetic templates are the subject of C24)"]
NOT_COVERED = ["statement lowering beyond the bounded corpus (no contract within reach expresses whole-function behaviour of the IR)",
               "ast.Div on integers (CPython yields a float: outside the subset the property describes)",
               "operators absent from binop_map (%, <<, >>, &, |, ^, **): the front end rejects them with a diagnostic, which the property allows"]
