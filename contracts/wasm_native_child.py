"""Child process of the C22 native-target stand-in: instantiates the single-instruction module of
contracts/wasmspec.py with target="native" and evaluates the requested functions on the operand grid.
Protocol (stdout, one JSON object per line, flushed): {"start": name} before a function, {"call": args} before
every call when verbose, {"done": name, "n": evaluations, "bad": [...]} after it.  A crash of this process
(SIGFPE / SIGSEGV in generated machine code) is observed by the parent through the missing "done" line.
usage: python -m contracts.wasm_native_child <tier> <verbose 0|1> <skip-traps 0|1> <name> [<name> ...]"""
import itertools
import json
import sys

from contracts import wasmspec as W


def jf(x):
    return {"__float__": repr(x)} if isinstance(x, float) else x


def main():
    tier, verbose, skip_traps = sys.argv[1], sys.argv[2] == "1", sys.argv[3] == "1"
    names = sys.argv[4:]
    only = None
    if names and names[0].startswith("@"):            # @<json list of args>: a single call
        only = [float(a["__float__"]) if isinstance(a, dict) else a for a in json.loads(names[0][1:])]
        names = names[1:]
    if names and names[0] == "--programs":
        from contracts import wasmprogs as WP
        for pr in WP.PROGRAMS:
            if pr[0] == "traps":
                continue                                  # a trap kills the process on this target
            print(json.dumps({"start": pr[0]}), flush=True)
            try:
                bad = WP.run_program(pr, target="native")
                bad = [{"instantiation": b[0] + 1, "call": "%s%r" % (b[2][0], tuple(b[2][1])), "expected": repr(b[3]), "observed": repr(b[4])} for b in bad[:2]]
            except Exception as ex:
                bad = [{"instantiation": 1, "call": "<instantiate>", "expected": "instantiates", "observed": "raised %s: %s" % (type(ex).__name__, str(ex)[:100])}]
            print(json.dumps({"done": pr[0], "n": 2 * len(pr[2]), "bad": bad}), flush=True)
        return
    from ppci.wasm import Module, instantiate
    fs = W.functions()
    m = Module("(module\n" + "\n".join(f[1] for f in fs) + ")")
    inst = instantiate(m, {}, target="native")
    byname = {f[0]: f for f in fs}
    thorough = tier != "quick"
    import os
    exclude = {k: [tuple(float(a["__float__"]) if isinstance(a, dict) else a for a in args) for args in v]
               for k, v in json.loads(os.environ.get("WASM_NATIVE_EXCLUDE", "{}")).items()}
    for name in names:
        _, wat, spec, params, result = byname[name]
        print(json.dumps({"start": name}), flush=True)
        doms = [W.ivals(int(p[1:]), thorough) if p[0] == "i" else W.fvals(int(p[1:]), thorough) for p in params]
        f = getattr(inst.exports, name)
        n, bad = 0, []
        for args in ([tuple(only)] if only is not None else itertools.product(*doms)):
            want = spec(*args)
            if want == W.TRAP and skip_traps:
                continue
            if only is None and tuple(args) in exclude.get(name, ()):
                continue
            if verbose:
                print(json.dumps({"call": [jf(a) for a in args]}), flush=True)
            n += 1
            try:
                got = f(*args)
            except Exception as ex:
                got = W.TRAP
            ok = (want == W.TRAP) == (got == W.TRAP) and (got == W.TRAP or W.same(got, want))
            if not ok and len(bad) < 3:
                bad.append({"args": [jf(a) for a in args], "expected": repr(want), "observed": repr(got)})
        print(json.dumps({"done": name, "n": n, "bad": bad}), flush=True)


if __name__ == "__main__":
    main()
