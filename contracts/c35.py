"""C35 -- GDB remote serial protocol framing (ppci/binutils/dbg/gdb/rsp.py).

Deductive: RspHandler.sendpkt's retransmission loop over a ghost acknowledgement sequence of ANY
length (loop invariant): the wire packet is sent once plus once per leading negative acknowledgement,
every transmission is the same wire packet, and ValueError is raised exactly when the retry budget is
exhausted first.
Bounded stand-in (labelled, never counted as proved): rsp_pack / rsp_unpack round trip, the byte-wise
decoder, decodepkt (ack / nack / delivery) for ALL payloads up to a stated length over an alphabet that
contains every framing and escape character, fed byte by byte with junk and back-to-back packets.
Threads, queue time-outs and interleavings of the receiver thread with senders are outside this family."""
import itertools
import queue
import z3
from pyvc.engine import Contract, Loop, make_value
from pyvc.spec import and_, or_, not_, implies, ite, iff, tier, nth
from pyvc.sym import SymInt, SymBool, SymSeq, SymIter, ctx, mkb, Undecided, as_z3_int
from pyvc import sym as S

M = "ppci.binutils.dbg.gdb.rsp"
PLUS = 43


class AckChar:
    """an acknowledgement character taken from the ghost sequence (code point symbolic)"""

    def __init__(self, code):
        self.code = code

    def __eq__(self, o):
        if isinstance(o, str) and len(o) == 1:
            return self.code == ord(o)
        return NotImplemented

    def __ne__(self, o):
        if isinstance(o, str) and len(o) == 1:
            return self.code != ord(o)
        return NotImplemented

    __hash__ = None

    def __str__(self):
        return "<ack>"


class GhostQueue:
    def __init__(self, acks):
        self.it = SymIter(acks) if isinstance(acks, SymSeq) else iter(list(acks))
        self.taken = 0

    def get(self, timeout=None):
        try:
            v = self.it.__next__()
        except StopIteration:
            raise queue.Empty()
        self.taken = self.taken + 1
        return AckChar(v)


class GhostTransport:
    def __init__(self, expected):
        self.on_byte = None
        self.count = 0
        self.expected = expected
        self.sent = []

    def send(self, data):
        if S.active():
            ctx().oblige("every transmission is the wire packet rsp_pack(data)", data == self.expected)
        self.sent.append(data)
        self.count = self.count + 1


class _NoLog:
    def debug(self, *a, **k): pass
    def warning(self, *a, **k): pass
    def info(self, *a, **k): pass


def _mk_send(c, g):
    acks = make_value(("list", 0, 128), "acks", c)
    R = make_value("int", "retries", c)
    return {"args": [], "env": {"acks": acks, "R": R}, "inputs": {"acks": acks, "retries": R}}


def _replay_send(g, v):
    return {"args": [], "env": {"acks": list(v["acks"]), "R": v["retries"]}}


def _send_call(fn, env, args, kwargs):
    from ppci.binutils.dbg.gdb.rsp import RspHandler
    wire = RspHandler.rsp_pack(env.payload).encode("ascii")
    t = GhostTransport(wire)
    h = RspHandler(t)
    h.logger = _NoLog()
    acks = env.acks
    if isinstance(acks, SymSeq):
        acks = SymSeq(acks.e, "list", acks.elem_bounds)
    h._ack_queue = GhostQueue(acks)
    env["h"], env["t"] = h, t
    fn(h, env.payload, env.R) if "R" in env else fn(h, env.payload)
    return t.count


def _first_plus(acks):
    """index of the first '+' in a concrete ack list (len if none)"""
    for i, a in enumerate(acks):
        if a == PLUS:
            return i
    return len(acks)


def _n_spec(e):
    """ghost: n = number of leading acknowledgements that are not '+' (skolem constant + defining facts)"""
    if not S.active():
        return _first_plus(e.acks)
    c = ctx()
    if "n" not in e:
        n = SymInt(z3.Int(c.fresh_name("n")))
        L = e.acks._len()
        j = z3.Int(c.fresh_name("j"))
        c.assume(z3.And(n.e >= 0, n.e <= L.e if isinstance(L, SymInt) else n.e <= L))
        c.assume(z3.ForAll([j], z3.Implies(z3.And(j >= 0, j < n.e), e.acks.e[j] != PLUS)))
        c.assume(z3.Or(n.e == (L.e if isinstance(L, SymInt) else L), e.acks.e[n.e] == PLUS))
        e["n"] = n
    return e["n"]


def _send_pre(e):
    n = _n_spec(e)
    L = e.acks._len() if isinstance(e.acks, SymSeq) else len(e.acks)
    # enough acknowledgements arrive (no queue time-out): one per transmission
    need = ite(n < e.R, lambda: n + 1, lambda: e.R + 1)
    return [e.R >= 1, L >= need]


def _havoc_self(h, c, name):
    q = h._ack_queue
    q.it.rem = z3.Const(c.fresh_name(name + ".acks_left"), S.ISeq)
    q.taken = SymInt(z3.Int(c.fresh_name(name + ".taken")))
    h.transport.count = SymInt(z3.Int(c.fresh_name(name + ".sent")))
    return h


def _send_inv(e):
    h = e.self
    q, t = h._ack_queue, h.transport
    old = e.old
    j = q.taken - 1          # number of retransmissions so far
    acks = old.acks
    n = _n_spec(old)
    L = acks._len()
    return [
        ("one acknowledgement consumed per transmission", t.count == q.taken),
        ("at least the first transmission happened", q.taken >= 1),
        ("retries == budget - retransmissions", e.retries == old.R - j),
        ("budget not yet exhausted", j < old.R),
        ("acknowledgements consumed so far are a prefix of the ghost sequence", and_(q.taken <= L, mkb(q.it.rem == z3.SubSeq(acks.e, as_z3_int(q.taken), as_z3_int(L) - as_z3_int(q.taken))))),
        ("res is the last acknowledgement consumed", e.res.code == nth(acks, j)),
        ("every acknowledgement before it was negative", j <= n),
    ]


def _send_post(e):
    n = _n_spec(e.old if S.active() else e)
    out = [("transmissions == 1 + number of leading negative acknowledgements", e.result == n + 1)]
    if not S.active():
        out.append(("every transmission is the wire packet rsp_pack(data)", all(x == e.t.expected for x in e.t.sent)))
    return out


def _send_samples(g, rnd):
    out = []
    for k in range(0, 7):
        for R in (1, 2, 3, 10):
            out.append({"acks": [45] * k + [43] + [45, 43], "retries": R})
    out.append({"acks": [45] * 12, "retries": 10})
    return out


SEND = Contract(
    M + ":RspHandler.sendpkt", "C35", grid=[{"payload": p} for p in ("m0,4", "a}b#$*c", "")],
    make=_mk_send, replay_args=_replay_send, call=_send_call, sample_inputs=_send_samples,
    requires=_send_pre,
    raises=[(ValueError, lambda e: _n_spec(e.old if "old" in e and S.active() else e) >= e.R)],
    ensures=_send_post,
    loops={0: Loop(havoc={"res": ("object", lambda cur, c, name: AckChar(SymInt(z3.Int(c.fresh_name("res"))))), "retries": "int",
                          "self": ("object", _havoc_self)},
                   invariant=_send_inv)},
)
CONTRACTS = [SEND]


# ---- bounded stand-in -------------------------------------------------------------------------------------
ALPHABET = "a}*#$'+-\x03:"


def _payloads(maxlen):
    for n in range(maxlen + 1):
        for t in itertools.product(ALPHABET, repeat=n):
            yield "".join(t)


class _Fake:
    def __init__(self):
        self.on_byte = None
        self.sent = []

    def send(self, data):
        self.sent.append(data)


def _mk_handler():
    from ppci.binutils.dbg.gdb.rsp import RspHandler
    t = _Fake()
    h = RspHandler(t)
    h.logger = _NoLog()
    msgs = []
    h.on_message = msgs.append
    acks = []

    class Q:
        def put(self, m, timeout=None):
            acks.append(m)
    h._ack_queue = Q()
    return h, t, msgs, acks


def _feed(h, data):
    for i in range(len(data)):
        h._process_byte(data[i:i + 1])


def check_payload(p):
    """all bounded obligations for one payload; returns list of (name, detail) failures"""
    from ppci.binutils.dbg.gdb.rsp import RspHandler
    bad = []
    wire = RspHandler.rsp_pack(p)
    body = wire[1:-3]
    if not (wire[0] == "$" and wire[-3] == "#" and all(c not in body for c in "#$")):
        bad.append(("rsp_pack: framing characters do not occur inside the packet body", wire))
    if int(wire[-2:], 16) != sum(ord(c) for c in body) % 256:
        bad.append(("rsp_pack: checksum is the byte sum of the escaped body mod 256", wire))
    try:
        back = RspHandler.rsp_unpack(wire)
    except Exception as e:
        back = "raised %r" % (e,)
    if back != p:
        bad.append(("rsp_unpack(rsp_pack(p)) == p (escapes restored)", back))
    # receiver: junk, the packet, a second packet, an ack and a nack, byte by byte
    h, t, msgs, acks = _mk_handler()
    _feed(h, b"xy" + wire.encode("ascii") + b"-" + RspHandler.rsp_pack("ok").encode("ascii") + b"+")
    if msgs != [p, "ok"]:
        bad.append(("receiver delivers exactly the payloads sent, once each, in order", msgs))
    if t.sent != [b"+", b"+"]:
        bad.append(("receiver acknowledges each good packet with '+'", t.sent))
    if acks != ["-", "+"]:
        bad.append(("acknowledgement bytes between packets reach the ack queue", acks))
    # back-to-back: three packets with nothing in between, then a good packet directly after a corrupted one
    h, t, msgs, acks = _mk_handler()
    _feed(h, (wire + RspHandler.rsp_pack("ok") + wire).encode("ascii"))
    if msgs != [p, "ok", p] or t.sent != [b"+", b"+", b"+"]:
        bad.append(("three packets sent back to back are each delivered once, in order, and acknowledged", (msgs, t.sent)))
    h, t, msgs, acks = _mk_handler()
    badwire = wire[:-2] + "%02X" % ((int(wire[-2:], 16) + 1) % 256)
    _feed(h, (badwire + wire).encode("ascii"))
    if msgs != [p] or t.sent != [b"-", b"+"]:
        bad.append(("a good packet directly after a corrupted one is delivered (nack, then ack)", (msgs, t.sent)))
    # corrupted checksum: nack, nothing delivered
    h, t, msgs, acks = _mk_handler()
    crc = (int(wire[-2:], 16) + 1) % 256
    _feed(h, (wire[:-2] + "%02X" % crc).encode("ascii"))
    if msgs or t.sent != [b"-"]:
        bad.append(("a packet with a bad checksum is negatively acknowledged and not delivered", (msgs, t.sent)))
    return bad


def bounded(tier_name, rnd):
    maxlen = 3 if tier_name == "quick" else 4
    evals = 0
    vio = []
    for p in _payloads(maxlen):
        evals += 1
        for name, detail in check_payload(p):
            if len(vio) < 5:
                vio.append({"name": "%s [payload %r]" % (name, p), "input": {"payload": p}, "observed": repr(detail)})
    return {"evaluations": evals, "distinct_nontrivial": evals, "exhaustive": True,
            "rule": "every payload of length 0..%d over the alphabet %r (all framing, escape and acknowledgement characters); per payload: pack "
                    "well-formedness, unpack round trip, byte-wise reception with junk / back-to-back packets / ack and nack bytes, bad checksum" % (maxlen, ALPHABET),
            "bound": "payload length <= %d over a %d-character alphabet" % (maxlen, len(ALPHABET)), "violations": vio,
            "samples": [{"payload": "a}#", "wire": "$a}]}\x03#..", "checked": "pack well-formed, unpack round trip, byte-wise reception, bad checksum"}]}


def replay_bounded(inp):
    bad = check_payload(inp["payload"])
    if bad:
        return False, {"payload": inp["payload"], "failed": bad[0][0], "observed": repr(bad[0][1])}
    return True, {"payload": inp["payload"], "observed": "all bounded obligations hold"}


ASSUMED = ["the acknowledgement queue is abstracted to a ghost sequence of characters delivered in order (one per get); queue time-outs are excluded by the "
           "precondition that enough acknowledgements arrive", "logger calls have no effect on program state"]
NOT_COVERED = ["thread interleavings of the receiver thread with senders, queue time-outs, the single-slot queue blocking behaviour (schedules are outside this family)",
               "payloads longer than the bound for pack / unpack / decoder (bounded stand-in only)", "the TCP transport"]
