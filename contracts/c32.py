"""C32 -- LR(1) parser generator (ppci/lang/tools/lr.py, grammar.py).

Bounded stand-in only (canonical LR(1) construction is a fix point over sets of item sets: no SMT-backed
contract within reach).  The postcondition of generate_parser + parse, taken from the property, is
evaluated at run time on the real code:
  for a grammar the builder accepts: the parser accepts a token sequence  <=>  the grammar derives it
  (reference: bounded fix-point enumeration of the language, independent of LR); when shift/reduce
  conflicts were resolved automatically only  accepted => derivable  is demanded; and the value returned
  is a valid derivation tree of exactly that token sequence under the grammar's productions
  (checked structurally: every node is a production whose right-hand side matches its children, the
  leaves spell the input) -- for an unambiguous grammar that is *the* derivation.
Enumerated: seeded random grammars over <= 3 terminals / <= 5 nonterminals / <= 9 productions (with
epsilon rules, recursive start symbols, and the public rewrite_eps_productions() pass applied to a part
of them) x every token sequence up to a stated length."""
import itertools
import multiprocessing as mp
import random

CONTRACTS = []
LEVEL = "exploration"
TERMS = ["a", "b", "c"]
NONTERMS = ["S", "A", "B", "C", "D"]


class _Lexer:
    def __init__(self, typs):
        from ppci.lang.common import Token, SourceLocation
        from ppci.lang.tools.baselex import EOF
        loc = SourceLocation("", 0, 0, 0)
        self.toks = [Token(t, t, loc) for t in typs]
        self.eof = Token(EOF, EOF, loc)
        self.pos = 0

    def next_token(self):
        if self.pos < len(self.toks):
            t = self.toks[self.pos]
            self.pos += 1
            return t
        return self.eof


class _Hang(BaseException):
    pass


def _alarm(signum, frame):
    raise _Hang()


def _guard(fn, seconds=5):
    import signal
    old = signal.signal(signal.SIGALRM, _alarm)
    signal.alarm(seconds)
    try:
        return fn()
    finally:
        signal.alarm(0)
        signal.signal(signal.SIGALRM, old)


def _language(prods, start, maxlen):
    """strings (tuples of terminals) of length <= maxlen derivable from each nonterminal: least fix point"""
    nts = {p[0] for p in prods}
    lang = {n: set() for n in nts}
    changed = True
    while changed:
        changed = False
        for name, rhs in prods:
            parts = [set([()])]
            cur = {()}
            for sym in rhs:
                nxt = set()
                opts = lang[sym] if sym in nts else {(sym,)}
                for pre in cur:
                    for o in opts:
                        if len(pre) + len(o) <= maxlen:
                            nxt.add(pre + o)
                cur = nxt
                if not cur:
                    break
            new = cur - lang[name]
            if new:
                lang[name] |= new
                changed = True
    return lang.get(start, set())


def _tree_ok(tree, prods, nts):
    """(ok, root symbol, leaves): structural validity of a value returned by the semantic actions"""
    from ppci.lang.common import Token
    if isinstance(tree, Token):
        return True, tree.typ, (tree.typ,)
    if not (isinstance(tree, tuple) and len(tree) >= 2 and tree[0] == "P"):
        return False, None, ()
    idx = tree[1]
    if not (isinstance(idx, int) and 0 <= idx < len(prods)):
        return False, None, ()
    name, rhs = prods[idx]
    kids = tree[2:]
    if len(kids) != len(rhs):
        return False, None, ()
    leaves = ()
    for k, sym in zip(kids, rhs):
        ok, root, lv = _tree_ok(k, prods, nts)
        if not ok or root != sym:
            return False, None, ()
        leaves += lv
    return True, name, leaves


def check_grammar(prods, start, rewrite_eps, maxlen):
    """prods: list of (name, rhs tuple).  Returns (status, failures)."""
    from ppci.lang.tools.grammar import Grammar
    from ppci.lang.tools import lr
    from ppci.lang.tools.common import ParserGenerationException, ParserException
    g = Grammar()
    g.add_terminals(TERMS)
    for i, (name, rhs) in enumerate(prods):
        g.add_production(name, list(rhs), (lambda i: lambda *a: ("P", i) + tuple(a))(i))
    g.start_symbol = start
    ref_prods = list(prods)
    with_values = True
    if rewrite_eps:
        try:
            _guard(g.rewrite_eps_productions, 2)
        except (AssertionError, _Hang):
            return "skipped", []        # the helper refuses / does not finish on this grammar: not a grammar the builder is given
        # the reference grammar is the rewritten production list the parser is built from
        ref_prods = [(p.name, tuple(p.symbols)) for p in g.productions]
        with_values = False          # rewritten rules carry no semantic action
    if not any(p[0] == start for p in ref_prods):
        return "skipped", []
    conflicts = []
    builder = lr.LrParserBuilder(g)
    orig = builder.set_action

    def spy(state, t, action):
        key = (state, t)
        if key in builder.action_table and builder.action_table[key] != action:
            conflicts.append(key)
        return orig(state, t, action)
    builder.set_action = spy
    try:
        parser = _guard(builder.generate_parser, 20)
    except _Hang:
        return "skipped", []         # table construction did not finish within the guard: not judged (a time limit is load dependent)
    except ParserGenerationException:
        return "rejected", []
    except Exception as e:
        return "rejected", []        # the builder refusing a grammar is allowed; only accepted grammars are constrained
    final = [(p.name, tuple(p.symbols)) for p in g.productions]
    lang = _language(final, start, maxlen)
    nts = {p[0] for p in final}
    errs = []
    for n in range(maxlen + 1):
        for s in itertools.product(TERMS, repeat=n):
            try:
                val = _guard(lambda: parser.parse(_Lexer(s)), 20)
                accepted = True
            except ParserException:
                accepted = False
            except _Hang:
                continue                 # not judged (time limit is load dependent); the guard only keeps the check from hanging
            except Exception as e:
                errs.append("parse%r raises only ParserException, got %r" % (s, e))
                continue
            member = s in lang
            if accepted and not member:
                errs.append("parser accepts %r which the grammar does not derive" % (s,))
            elif member and not accepted and not conflicts:
                errs.append("parser rejects %r which the grammar derives (no conflict was resolved)" % (s,))
            elif accepted and with_values and final == list(prods):
                ok, root, leaves = _tree_ok(val, final, nts)
                if not (ok and root == start and leaves == tuple(s)):
                    errs.append("value returned for %r is a derivation tree of exactly that input, got %r" % (s, val))
            if len(errs) >= 3:
                return "checked", errs
    return "checked", errs


def random_grammar(rng):
    nnt = rng.randrange(1, 6)
    nts = NONTERMS[:nnt]
    nprod = rng.randrange(1, 7) if nnt <= 3 else rng.randrange(nnt, 10)
    prods = []
    for i in range(nprod):
        name = nts[0] if i == 0 else rng.choice(nts)
        ln = rng.choice([0, 1, 1, 2, 2, 2, 3, 3])
        rhs = tuple(rng.choice(TERMS + nts + TERMS) for _ in range(ln))
        prods.append((name, rhs))
    for nt in nts:
        if not any(p[0] == nt for p in prods):
            prods.append((nt, (rng.choice(TERMS),)))
    return prods, nts[0]


def _chunk(args):
    seed, count, maxlen = args
    rng = random.Random(seed)
    ev = 0
    nontriv = 0
    bad = []
    for _ in range(count):
        prods, start = random_grammar(rng)
        rew = rng.random() < 0.3
        st, errs = check_grammar(prods, start, rew, maxlen)
        ev += 1
        if st == "checked":
            nontriv += 1
        if errs and len(bad) < 3:
            bad.append((prods, start, rew, errs[0]))
    return ev, nontriv, bad


FIXED = [
    ([("S", ("S", "a")), ("S", ("b",))], "S", False),                                   # left-recursive start symbol
    ([("S", ("a", "S")), ("S", ())], "S", False),                                      # right recursion with epsilon
    ([("S", ("A", "a", "b")), ("S", ("c", "B")), ("A", ()), ("A", ("c",)), ("B", ("b",))], "S", True),
    ([("S", ("A",)), ("A", ("A", "b", "A")), ("A", ("a",))], "S", False),              # ambiguous: conflict resolved or rejected
    ([("S", ("a", "S", "b")), ("S", ("c",))], "S", False),
    ([("S", ("S", "S")), ("S", ("a",))], "S", False),
    # nullable nonterminal in the middle / at the start of a production, indirect nullability (4+ nonterminals)
    ([("S", ("A", "B")), ("A", ("a",)), ("B", ("C", "c")), ("C", ("b",)), ("C", ())], "S", False),
    ([("S", ("D",)), ("D", ()), ("D", ("D", "A")), ("A", ("a", "B", "C", "c")), ("B", ("b",)), ("C", ("b", "a")), ("C", ("D2",)) if False else ("C", ())], "S", False),
    ([("S", ("A", "B", "C", "c")), ("A", ("a",)), ("B", ("b",)), ("C", ("D",)), ("D", ())], "S", False),
    ([("S", ("A", "B", "c")), ("A", ("a",)), ("B", ("C", "D")), ("C", ()), ("D", ()), ("D", ("b",))], "S", False),
    # nullable, directly left-recursive lists behind / between other nonterminals (FIRST of a left-recursive nullable symbol)
    ([("S", ("H", "L")), ("H", ("a",)), ("L", ()), ("L", ("L", "b"))], "S", False),
    ([("S", ("H", "L", "T")), ("H", ("a",)), ("L", ()), ("L", ("L", "b")), ("T", ("c",)), ("T", ())], "S", False),
    ([("S", ("L", "H")), ("H", ("a",)), ("L", ()), ("L", ("L", "b", "c"))], "S", False),
    ([("S", ("H", "M")), ("H", ("a",)), ("H", ("H", "c")), ("M", ("L",)), ("L", ()), ("L", ("L", "b"))], "S", False),
    # a non-terminal that is nullable only through pure-epsilon markers, used before it and its markers are defined (FIRST / nullable
    # fixpoint must keep iterating when a pass changes nullability only)
    ([("S", ("a", "N", "D")), ("N", ("b",)), ("D", ("P", "c", "b")), ("P", ("O", "I")), ("O", ()), ("I", ())], "S", False),
    ([("S", ("N", "D")), ("D", ("P", "c")), ("D", ("P", "P", "b")), ("N", ("a",)), ("P", ("O", "I", "O")), ("I", ()), ("O", ())], "S", False),
    ([("S", ("D", "a")), ("D", ("P", "Q")), ("P", ("O",)), ("Q", ("I", "O")), ("Q", ("b",)), ("O", ()), ("I", ())], "S", False),
]


def bounded(tier_name, rnd):
    maxlen = 5 if tier_name == "quick" else 6
    count = 3000 if tier_name == "quick" else 40000
    seed0 = rnd.randrange(1 << 30)
    with mp.get_context("fork").Pool(16) as pool:
        res = pool.map(_chunk, [(seed0 + i, count // 32, maxlen) for i in range(32)])
    ev = sum(r[0] for r in res)
    nontriv = sum(r[1] for r in res)
    vio = []
    for _, _, bad in res:
        for prods, start, rew, what in bad:
            if len(vio) < 5:
                vio.append({"name": "%s [grammar %s start=%s rewrite_eps=%s]" % (what, prods, start, rew),
                            "input": {"prods": [[n, list(r)] for n, r in prods], "start": start, "rewrite_eps": rew, "maxlen": maxlen}, "observed": what})
    for prods, start, rew in FIXED:
        ev += 1
        st, errs = check_grammar(prods, start, rew, maxlen)
        if st == "checked":
            nontriv += 1
        for what in errs[:1]:
            vio.append({"name": "%s [grammar %s start=%s rewrite_eps=%s]" % (what, prods, start, rew),
                        "input": {"prods": [[n, list(r)] for n, r in prods], "start": start, "rewrite_eps": rew, "maxlen": maxlen}, "observed": what})
    return {"evaluations": ev, "distinct_nontrivial": nontriv, "exhaustive": False,
            "rule": "%d seeded random grammars (seed %d; <= 3 terminals, <= 5 nonterminals, <= 9 productions of length 0..3, 30%% passed through "
                    "rewrite_eps_productions) + %d fixed grammars (recursive start symbol, epsilon rules, ambiguity); for every grammar the builder accepts, every "
                    "token sequence of length 0..%d is parsed and compared with the bounded language enumeration; non-trivial = grammars the builder accepted "
                    "(the others are rejected or skipped)" % (count, seed0, len(FIXED), maxlen),
            "bound": "grammars as described; token sequences up to length %d" % maxlen, "violations": vio,
            "samples": [{"grammar": FIXED[0][0], "start": "S", "sequences": "all over {a,b,c} up to length %d" % maxlen},
                        {"grammar": FIXED[2][0], "start": "S", "rewrite_eps": True}]}


def replay_bounded(inp):
    prods = [(n, tuple(r)) for n, r in inp["prods"]]
    st, errs = check_grammar(prods, inp["start"], inp["rewrite_eps"], inp.get("maxlen", 5))
    if errs:
        return False, {"case": inp, "failed": errs[:3]}
    return True, {"case": inp, "observed": "status %s, postcondition holds" % st}


ASSUMED = ["the reference language is the least fix point of the productions restricted to strings up to the bound (independent of the LR construction)"]
NOT_COVERED = ["grammars / inputs beyond the stated bounds (no unbounded proof)", "the grammar specification parsers (yacc-style front end), precedence declarations"]
