"""C40 (slice) -- System V x86-64 calling convention: where arguments and return values live, and which
callee-saved registers a frame must preserve (X86_64Arch.determine_arg_locations / determine_rv_location /
get_callee_saved).

Bounded stand-in only, labelled bounded, never counted as proved: the postcondition -- the System V
AMD64 psABI classification (INTEGER arguments in rdi rsi rdx rcx r8 r9, SSE arguments in xmm0..7, the rest
on the stack in 8-byte slots in argument order starting 16 bytes above the frame pointer; return value
in rax / xmm0; a callee-saved register is preserved whenever the frame uses it or any alias of it) -- is
evaluated at run time on the real functions for EVERY signature up to N parameters over the IR scalar
types plus seeded random signatures up to 20 parameters (both register files exhausted)."""
import itertools
import multiprocessing as mp
import random

CONTRACTS = []
LEVEL = "exploration"
INT_REGS = ["rdi", "rsi", "rdx", "rcx", "r8", "r9"]
FAMILY = {}
for _fam, _members in {"rdi": ["rdi", "edi", "di", "dil"], "rsi": ["rsi", "esi", "si", "sil"], "rdx": ["rdx", "edx", "dx", "dl"],
                       "rcx": ["rcx", "ecx", "cx", "cl"], "r8": ["r8", "r8d", "r8w", "r8b"], "r9": ["r9", "r9d", "r9w", "r9b"],
                       "rax": ["rax", "eax", "ax", "al"]}.items():
    for _m in _members:
        FAMILY[_m] = _fam
WIDTH = {"i8": 8, "u8": 8, "i16": 16, "u16": 16, "i32": 32, "u32": 32, "i64": 64, "u64": 64, "ptr": 64}


def _types():
    from ppci import ir
    return {"i8": ir.i8, "u8": ir.u8, "i16": ir.i16, "u16": ir.u16, "i32": ir.i32, "u32": ir.u32, "i64": ir.i64, "u64": ir.u64,
            "ptr": ir.ptr, "f32": ir.f32, "f64": ir.f64}


_ARCH = {}


def arch():
    if "a" not in _ARCH:
        from ppci.api import get_arch
        _ARCH["a"] = get_arch("x86_64")
    return _ARCH["a"]


def expected_locations(sig):
    """System V classification: list of ('reg', family) / ('xmm', k) / ('stack', offset)"""
    out = []
    ni = nf = 0
    off = 16
    for t in sig:
        if t in ("f32", "f64"):
            if nf < 8:
                out.append(("xmm", nf))
                nf += 1
            else:
                out.append(("stack", off))
                off += 8
        else:
            if ni < 6:
                out.append(("reg", INT_REGS[ni]))
                ni += 1
            else:
                out.append(("stack", off))
                off += 8
    return out


def _describe(loc):
    from ppci.arch.stack import StackLocation
    if isinstance(loc, StackLocation):
        return ("stack", loc.offset)
    name = loc.name
    if name.startswith("xmm"):
        return ("xmm", int(name.replace("_single", "")[3:]))
    return ("reg", FAMILY.get(name, name))


def check_signature(sig):
    T = _types()
    errs = []
    try:
        locs = arch().determine_arg_locations([T[t] for t in sig])
    except Exception as e:
        return ["no exception, got %r" % (e,)]
    want = expected_locations(sig)
    got = [_describe(l) for l in locs]
    for i, (w, g) in enumerate(zip(want, got)):
        if w != g:
            errs.append("argument %d (%s) of %s is passed in %s, got %s" % (i, sig[i], list(sig), w, g))
            break
    if len(want) != len(got):
        errs.append("one location per argument")
    from ppci.arch.stack import StackLocation
    for i, l in enumerate(locs):
        if isinstance(l, StackLocation):
            need = 4 if sig[i] == "f32" else 8
            if l.size < need and sig[i] not in WIDTH:
                errs.append("stack slot of argument %d holds the value" % i)
        elif sig[i] in WIDTH and hasattr(l, "bitsize"):
            if l.bitsize < WIDTH[sig[i]]:
                errs.append("register of argument %d (%s) is wide enough (%d bits), got %s" % (i, sig[i], WIDTH[sig[i]], l.name))
    return errs


def check_function_enter(sig):
    """the callee side: every stack-passed argument is loaded from rbp + its System V offset"""
    from ppci.arch.x86_64 import registers as R
    T = _types()
    cls = {"i64": R.Register64, "u64": R.Register64, "ptr": R.Register64, "i32": R.Register32, "u32": R.Register32,
           "f64": R.XmmRegisterDouble, "f32": R.XmmRegisterSingle}
    if any(t not in cls for t in sig):
        return []
    args = [(T[t], cls[t]("v%d" % i)) for i, t in enumerate(sig)]
    try:
        ins = list(arch().gen_function_enter(args))
    except Exception as e:
        return ["gen_function_enter%r raises nothing, got %r" % (list(sig), e)]
    want = [off for kind, off in expected_locations(sig) if kind == "stack"]
    got = []
    for i in ins:
        for attr in ("rm", "src", "m"):
            rm = getattr(i, attr, None)
            if rm is not None and type(rm).__name__ == "RmMemDisp":
                got.append(rm.disp if hasattr(rm, "disp") else getattr(rm, "offset", None))
                break
    if got != want:
        return ["function entry of %s loads its stack arguments from rbp+%s, got rbp+%s" % (list(sig), want, got)]
    return []


def check_rv(t):
    T = _types()
    rv = arch().determine_rv_location(T[t])
    d = _describe(rv)
    want = ("xmm", 0) if t in ("f32", "f64") else ("reg", "rax")
    errs = []
    if d != want:
        errs.append("return value of type %s is in %s, got %s" % (t, want, d))
    if t in WIDTH and getattr(rv, "bitsize", 64) < WIDTH[t]:
        errs.append("return register for %s is wide enough" % t)
    return errs


def check_callee_saved(used_names):
    """every System V callee-saved register (rbx, r12-r15; rbp and rsp are handled by the prologue itself) that the frame uses --
    directly or through an alias such as ebx / bl / r12d -- is in the list of registers to save"""
    from ppci.arch.stack import Frame
    from ppci.arch.x86_64 import registers as R
    a = arch()
    frame = Frame("f")
    allregs = {r.name: r for r in _all_registers()}
    frame.used_regs = {allregs[n] for n in used_names}
    saved = {r.name for r in a.get_callee_saved(frame)}
    errs = []
    for cs in ("rbx", "r12", "r13", "r14", "r15"):
        if cs not in allregs:
            continue        # not in ppci's register file: never allocated, nothing to preserve
        aliases = {r.name for r in a.info.alias[allregs[cs]]} | {cs}
        must = bool(aliases & set(used_names))
        if must and cs not in saved:
            errs.append("%s is preserved when the frame uses %s" % (cs, sorted(aliases & set(used_names))))
        if not must and cs in saved:
            pass        # saving more than necessary is allowed
    return errs


def _all_registers():
    a = arch()
    seen = {}
    for cls in a.info.register_classes:
        for r in cls.registers:
            seen[r.name] = r
            for x in a.info.alias.get(r, []):
                seen[x.name] = x
    return list(seen.values())


TYPES = ["i8", "i16", "i32", "i64", "ptr", "f32", "f64"]


def _chunk(args):
    n, lo, hi = args
    ev = 0
    bad = []
    for k in range(lo, hi):
        sig = []
        x = k
        for _ in range(n):
            sig.append(TYPES[x % len(TYPES)])
            x //= len(TYPES)
        ev += 1
        r = check_signature(tuple(sig)) or check_function_enter(tuple(sig))
        if r and len(bad) < 3:
            bad.append((list(sig), r[0]))
    return ev, bad


def _chunk_random(args):
    seed, count = args
    rng = random.Random(seed)
    ev = 0
    bad = []
    allt = list(_types())
    for _ in range(count):
        n = rng.randrange(7, 21)
        p = rng.random()
        sig = tuple(rng.choice(allt if p < 0.5 else (["f32", "f64", "i64"] if p < 0.8 else ["f32", "f32", "f64", "i32", "ptr"])) for _ in range(n))
        ev += 1
        r = check_signature(sig) or check_function_enter(sig)
        if r and len(bad) < 3:
            bad.append((list(sig), r[0]))
    return ev, bad


# ---- execution part of the stand-in: ppci-compiled code called by / calling a System V conforming party (libffi via ctypes) ------
# Callee direction: C functions with generated signatures (char / short / int / long / float / double, 0..12 parameters)
# are compiled by ppci for x86-64, loaded into memory and called through ctypes; each returns a position-weighted sum
# of its parameters, so a misplaced, truncated or swapped argument changes the result.
# Caller direction: ppci-compiled functions pass their parameters, reversed, to an imported function that ctypes
# implements as a conforming callee (a Python callback), and return what it returns.
_CT = {"char": (8, False), "short": (16, False), "int": (32, False), "long": (64, False), "float": (None, True), "double": (None, True)}


def _gen_exec_sigs(r, per_n, nmax=12):
    sigs = []
    for n in range(0, nmax + 1):
        for _ in range(per_n):
            p = r.random()
            pool = list(_CT) if p < 0.6 else (["long", "int", "char", "short"] if p < 0.8 else ["double", "float", "long"])
            sigs.append([r.choice(pool) for _ in range(n)])
    return sigs


def _callee_source(sigs):
    out = []
    for k, sig in enumerate(sigs):
        ret = "double" if any(_CT[t][1] for t in sig) else "long"
        params = ", ".join("%s a%d" % (t, i) for i, t in enumerate(sig)) or "void"

        def term(i, t):
            if ret == "double":
                e = "a%d" % i if t == "double" else ("(double)a%d" % i if t in ("float", "long") else "(double)(long)a%d" % i)
                return "%s * %d.0" % (e, i + 1)
            return "%s * %d" % ("a%d" % i if t == "long" else "(long)a%d" % i, i + 1)
        body = " + ".join(term(i, t) for i, t in enumerate(sig)) or ("0.0" if ret == "double" else "0")
        out.append("%s f%d(%s) { return %s; }" % (ret, k, params, body))
        if ret == "double":
            # the same parameters summed as integers: every float / double parameter is converted with a C cast (truncation)
            ibody = " + ".join("%s * %d" % ("a%d" % i if t == "long" else "(long)a%d" % i, i + 1) for i, t in enumerate(sig))
            out.append("long h%d(%s) { return %s; }" % (k, params, ibody))
    return "\n".join(out) + "\n"


def _arg_value(r, t):
    bits, isf = _CT[t]
    if isf:
        return r.choice([0.0, 1.5, -2.25, 1024.0, 3.0, -0.5, 7.0, -64.0])
    m = 1 << (min(bits, 40) - 1)          # keeps every weighted sum exact in a double
    return r.choice([0, 1, -1, m - 1, -m, 5, -7, 100 % m, 77 % m])


def _expected_sum(sig, args):
    if any(_CT[t][1] for t in sig):
        return float(sum(float(a) * (i + 1) for i, a in enumerate(args)))
    s = sum(a * (i + 1) for i, a in enumerate(args)) & ((1 << 64) - 1)
    return s - (1 << 64) if s >> 63 else s


def _load(src, imports=None):
    import ctypes
    import io
    from ppci import api
    from ppci.utils import codepage
    codepage.debug_type_name_mapping.setdefault("short", ctypes.c_short)      # the loader (not under test) lacks this entry
    obj = api.cc(io.StringIO(src), "x86_64", debug=True)
    return codepage.load_obj(obj, imports=imports)


def _exec_callee(seed, per_n, calls):
    r = random.Random(seed)
    sigs = _gen_exec_sigs(r, per_n)
    src = _callee_source(sigs)
    ev, bad = 0, []
    try:
        m = _load(src)
    except Exception as ex:
        return 1, [{"name": "ppci compiles the generated callee functions", "input": {"kind": "exec-callee", "seed": seed, "per_n": per_n, "calls": calls},
                    "observed": "raised %s: %s" % (type(ex).__name__, str(ex)[:120])}]
    for k, sig in enumerate(sigs):
        f = getattr(m, "f%d" % k)
        for _ in range(calls):
            args = [_arg_value(r, t) for t in sig]
            ev += 1
            got, want = f(*args), _expected_sum(sig, args)
            if any(_CT[t][1] for t in sig):
                ev += 1
                goth = getattr(m, "h%d" % k)(*args)
                wanth = sum(int(a) * (i + 1) for i, a in enumerate(args))
                wanth = ((wanth + (1 << 63)) % (1 << 64)) - (1 << 63)
                if goth != wanth and len(bad) < 3:
                    bad.append({"name": "ppci-compiled callee h(%s) called through libffi with %r returns the weighted sum of the parameters cast to long (truncation)" % (", ".join(sig), args),
                                "input": {"kind": "exec-callee", "seed": seed, "per_n": per_n, "calls": calls}, "expected": repr(wanth), "observed": repr(goth), "signature": sig, "args": args})
            if got != want and len(bad) < 3:
                bad.append({"name": "ppci-compiled callee f(%s) called through libffi with %r returns the position-weighted sum" % (", ".join(sig), args),
                            "input": {"kind": "exec-callee", "seed": seed, "per_n": per_n, "calls": calls}, "expected": repr(want), "observed": repr(got), "signature": sig, "args": args})
    return ev, bad


def _exec_caller(seed, count, calls):
    from ppci import ir
    r = random.Random(seed)
    PY = {"int": ir.i32, "long": ir.i64, "float": ir.f32, "double": ir.f64}
    sigs = [[r.choice(list(PY)) for _ in range(r.randint(0, 12))] for _ in range(count)]
    seen = {}
    lines, imports = [], {}
    for k, sig in enumerate(sigs):
        rsig = list(reversed(sig))
        ret = "double" if any(_CT[t][1] for t in sig) else "long"
        lines.append("%s ext%d(%s);" % (ret, k, ", ".join(rsig) or "void"))
        lines.append("%s g%d(%s) { return ext%d(%s); }" % (ret, k, ", ".join("%s a%d" % (t, i) for i, t in enumerate(sig)) or "void", k,
                                                            ", ".join("a%d" % i for i in reversed(range(len(sig))))))

        def make(k, rsig, ret):
            def cb(*a):
                seen[k] = list(a)
                return _expected_sum(rsig, list(a))
            cb.__signature__ = __import__("inspect").Signature(
                [__import__("inspect").Parameter("p%d" % i, __import__("inspect").Parameter.POSITIONAL_ONLY, annotation=PY[t]) for i, t in enumerate(rsig)],
                return_annotation=PY[ret])
            return cb
        imports["ext%d" % k] = make(k, rsig, ret)
    ev, bad = 0, []
    try:
        m = _load("\n".join(lines) + "\n", imports)
    except Exception as ex:
        return 1, [{"name": "ppci compiles the generated caller functions", "input": {"kind": "exec-caller", "seed": seed, "count": count, "calls": calls},
                    "observed": "raised %s: %s" % (type(ex).__name__, str(ex)[:120])}]
    for k, sig in enumerate(sigs):
        g = getattr(m, "g%d" % k)
        for _ in range(calls):
            args = [_arg_value(r, t) for t in sig]
            ev += 1
            seen.pop(k, None)
            got = g(*args)
            want = _expected_sum(list(reversed(sig)), list(reversed(args)))
            if (got != want or seen.get(k) != list(reversed(args))) and len(bad) < 3:
                bad.append({"name": "ppci-compiled caller g(%s) passes %r reversed to a libffi callee and returns its result" % (", ".join(sig), args),
                            "input": {"kind": "exec-caller", "seed": seed, "count": count, "calls": calls}, "expected": "%r received, %r returned" % (list(reversed(args)), want),
                            "observed": "%r received, %r returned" % (seen.get(k), got), "signature": sig, "args": args})
    return ev, bad


def bounded(tier_name, rnd):
    nmax = 6 if tier_name == "quick" else 8
    jobs = []
    for n in range(0, nmax + 1):
        total = len(TYPES) ** n
        step = max(total // 32, 1)
        for lo in range(0, total, step):
            jobs.append((n, lo, min(lo + step, total)))
    seed0 = rnd.randrange(1 << 30)
    nrand = 20000 if tier_name == "quick" else 200000
    with mp.get_context("fork").Pool(16) as pool:
        res = pool.map(_chunk, jobs)
        res_r = pool.map(_chunk_random, [(seed0 + i, nrand // 32) for i in range(32)])
    ev = sum(r[0] for r in res) + sum(r[0] for r in res_r)
    vio = []
    for _, bad in res + res_r:
        for sig, what in bad:
            if len(vio) < 5:
                vio.append({"name": what, "input": {"kind": "signature", "sig": sig}, "observed": what})
    for t in _types():
        ev += 1
        for what in check_rv(t):
            vio.append({"name": what, "input": {"kind": "rv", "type": t}, "observed": what})
    names = sorted(r.name for r in _all_registers())
    for n1 in names:
        ev += 1
        for what in check_callee_saved([n1]):
            if len(vio) < 8:
                vio.append({"name": what, "input": {"kind": "callee_saved", "used": [n1]}, "observed": what})
    per_n, calls, count = (3, 6, 30) if tier_name == "quick" else (12, 12, 150)
    e1, b1 = _exec_callee(4001, per_n, calls)
    e2, b2 = _exec_caller(4002, count, calls)
    ev += e1 + e2
    vio += b1 + b2
    return {"evaluations": ev, "distinct_nontrivial": ev, "exhaustive": False, "executed_calls": e1 + e2,
            "rule": "(execution part: %d generated C functions of 0..12 char / short / int / long / float / double parameters compiled by ppci, loaded and called through libffi with %d argument "
                    "vectors each; %d generated ppci-compiled callers that pass 0..12 int / long / float / double parameters, reversed, to a libffi callee)  " % (13 * per_n, calls, count) +
                    "every signature of 0..%d parameters over %s (exhaustive) + %d seeded random signatures of 7..20 parameters over all 11 scalar IR types (seed %d); "
                    "every scalar return type; every single register of the register file as the only register a frame uses (callee-saved obligation); all cases distinct "
                    "by construction or drawn independently" % (nmax, TYPES, nrand, seed0),
            "bound": "exhaustive up to %d parameters; random up to 20" % nmax, "violations": vio,
            "samples": [{"signature": ["i64", "f32", "ptr", "i32"], "expected": expected_locations(["i64", "f32", "ptr", "i32"])},
                        {"signature": ["f64"] * 9 + ["f32", "i64"], "expected": expected_locations(["f64"] * 9 + ["f32", "i64"])}]}


def replay_bounded(inp):
    if inp["kind"] in ("exec-callee", "exec-caller"):
        ev, bad = (_exec_callee(inp["seed"], inp["per_n"], inp["calls"]) if inp["kind"] == "exec-callee" else _exec_caller(inp["seed"], inp["count"], inp["calls"]))
        if bad:
            return False, {k: v for k, v in bad[0].items() if k != "input"}
        return True, {"case": inp, "observed": "every call returns the expected value"}
    if inp["kind"] == "signature":
        r = check_signature(tuple(inp["sig"])) or check_function_enter(tuple(inp["sig"]))
    elif inp["kind"] == "rv":
        r = check_rv(inp["type"])
    else:
        r = check_callee_saved(inp["used"])
    if r:
        return False, {"case": inp, "failed": r[:3]}
    return True, {"case": inp, "observed": "postcondition holds"}


# ---------------------------------------------------------------------------------------------------
# Deductive part: determine_arg_locations for signatures of ANY length, by the loop-invariant rule.
#
# The function is cut mechanically (ast, on every run, from the real source) at its single
# `for arg_type in arg_types:` loop into  preamble / body / tail.  Invariant, stated over the specification
# state (ni, nf, off) of `expected_locations`:
#     int_regs == INT[ni:]  and  float_regs == FLT[nf:]  and  offset == off  and  arg_locs == locations of the prefix
# Obligations:  init  -- the preamble establishes it with (0, 0, 16) and an empty arg_locs;
#               step  -- for EVERY reachable register-file state (ni in 0..6, nf in 0..8), EVERY scalar IR type and
#                        EVERY integer offset (symbolic), the real body appends exactly the specification's location
#                        for that type, leaves the earlier entries alone and re-establishes the invariant for the
#                        specification's next state;
#               tail  -- the statements after the loop are `return arg_locs`.
# Extraction drops nothing but the docstring; a loop body with break / continue / return, or a function that no
# longer has this shape, makes the contract stale (undecided), never a violation.
import ast as _ast
import inspect as _inspect
import textwrap as _textwrap
from pyvc.engine import Contract, make_value
from pyvc.spec import and_, tier
from pyvc.sym import Undecided

_M40 = "ppci.arch.x86_64.arch:X86_64Arch.determine_arg_locations"
_STATE = ["int_regs", "float_regs", "offset", "arg_locs"]
_CUT = {}


def _cut():
    """(preamble function, body function) compiled from the real source of determine_arg_locations"""
    from ppci.arch.x86_64.arch import X86_64Arch
    fn = X86_64Arch.determine_arg_locations
    src = _textwrap.dedent(_inspect.getsource(fn))
    if _CUT.get("src") == src:
        return _CUT["fns"]
    fdef = _ast.parse(src).body[0]
    params = [a.arg for a in fdef.args.args]
    if len(params) != 2:
        raise Undecided("contract stale: determine_arg_locations%r" % (params,))
    loops = [i for i, s in enumerate(fdef.body) if isinstance(s, (_ast.For, _ast.While))]
    if len(loops) != 1 or not isinstance(fdef.body[loops[0]], _ast.For):
        raise Undecided("contract stale: determine_arg_locations no longer has exactly one top-level for loop")
    k = loops[0]
    loop = fdef.body[k]
    if not (isinstance(loop.iter, _ast.Name) and loop.iter.id == params[1] and isinstance(loop.target, _ast.Name) and not loop.orelse):
        raise Undecided("contract stale: the loop is no longer `for <name> in %s`" % params[1])
    tail = fdef.body[k + 1:]
    if not (len(tail) == 1 and isinstance(tail[0], _ast.Return) and isinstance(tail[0].value, _ast.Name) and tail[0].value.id == "arg_locs"):
        raise Undecided("contract stale: the statements after the loop are no longer `return arg_locs`")
    for n in _ast.walk(loop):
        if isinstance(n, (_ast.Break, _ast.Continue, _ast.Return, _ast.Yield, _ast.For, _ast.While)) and n is not loop:
            raise Undecided("contract stale: the loop body contains %s" % type(n).__name__)
    for n in _ast.walk(_ast.Module(body=fdef.body[:k], type_ignores=[])):
        if isinstance(n, (_ast.Return, _ast.For, _ast.While)):
            raise Undecided("contract stale: the preamble contains %s" % type(n).__name__)
    assigned = {n.id for s in fdef.body[:k] for n in _ast.walk(s) if isinstance(n, _ast.Name) and isinstance(n.ctx, _ast.Store)}
    if assigned != set(_STATE):
        raise Undecided("contract stale: loop-carried state is %s, the invariant is stated over %s" % (sorted(assigned), _STATE))
    ret = _ast.Return(value=_ast.Tuple(elts=[_ast.Name(id=v, ctx=_ast.Load()) for v in _STATE], ctx=_ast.Load()))
    noargs = dict(posonlyargs=[], kwonlyargs=[], kw_defaults=[], defaults=[])
    pre = _ast.FunctionDef(name="__pre", args=_ast.arguments(args=[_ast.arg(arg=p) for p in params], **noargs),
                           body=[s for s in fdef.body[:k] if not (isinstance(s, _ast.Expr) and isinstance(s.value, _ast.Constant))] + [ret],
                           decorator_list=[])
    body = _ast.FunctionDef(name="__body", args=_ast.arguments(args=[_ast.arg(arg=p) for p in [params[0], loop.target.id] + _STATE], **noargs),
                            body=list(loop.body) + [ret], decorator_list=[])
    mod = _ast.fix_missing_locations(_ast.Module(body=[pre, body], type_ignores=[]))
    ns = dict(fn.__globals__)
    exec(compile(mod, "<determine_arg_locations, cut at its loop>", "exec"), ns)
    _CUT["src"], _CUT["fns"] = src, (ns["__pre"], ns["__body"])
    return _CUT["fns"]


def _regfiles():
    from ppci.arch.x86_64 import registers as R
    INT = [(getattr(R, n), getattr(R, e)) for n, e in [("rdi", "edi"), ("rsi", "esi"), ("rdx", "edx"), ("rcx", "ecx"), ("r8", "r8d"), ("r9", "r9d")]]
    FLT = [(getattr(R, "xmm%d_single" % i), getattr(R, "xmm%d" % i)) for i in range(8)]
    return INT, FLT


_SENTINEL = object()


def _step_call(fn, env, args, kwargs):
    pre, body = _cut()
    INT, FLT = _regfiles()
    try:
        out = body(arch(), _types()[env.t], list(INT[env.ni:]), list(FLT[env.nf:]), env.offset, [_SENTINEL])
    except NameError as e:
        raise Undecided("contract stale: the loop body reads %s" % e)
    return out


def _step_post(e):
    from ppci.arch.stack import StackLocation
    INT, FLT = _regfiles()
    int_regs, float_regs, offset, arg_locs = e.result
    is_f = e.t in ("f32", "f64")
    in_reg = (e.nf < 8) if is_f else (e.ni < 6)
    ni2 = e.ni + (0 if is_f or not in_reg else 1)
    nf2 = e.nf + (1 if is_f and in_reg else 0)
    yield ("exactly one location is appended and the earlier entries are untouched", len(arg_locs) == 2 and arg_locs[0] is _SENTINEL)
    loc = arg_locs[-1]
    yield ("integer register file afterwards == rdi rsi rdx rcx r8 r9 minus the registers handed out", list(int_regs) == INT[ni2:])
    yield ("SSE register file afterwards == xmm0..7 minus the registers handed out", list(float_regs) == FLT[nf2:])
    if in_reg:
        yield ("a register is handed out while the file of its class is not exhausted", not isinstance(loc, StackLocation))
        if not isinstance(loc, StackLocation):
            want = ("xmm", e.nf) if is_f else ("reg", INT_REGS[e.ni])
            yield ("the %s is the next one of its class in System V order" % ("SSE register" if is_f else "integer register"), _describe(loc) == want)
            if is_f:
                yield ("single / double view of the SSE register matches the type", loc.bitsize == (32 if e.t == "f32" else 64))
            else:
                yield ("the register is wide enough for the type", loc.bitsize >= WIDTH[e.t])
        yield ("a register argument consumes no stack", offset == e.offset)
    else:
        yield ("the argument goes to the stack once the file of its class is exhausted", isinstance(loc, StackLocation))
        if isinstance(loc, StackLocation):
            yield ("its slot starts at the running offset", loc.offset == e.offset)
            yield ("the slot holds the value", loc.size >= (4 if e.t == "f32" else 8) and loc.size <= 8)
        yield ("every stack argument takes one 8-byte slot (offset advances by 8)", offset == e.offset + 8)


def _step_mk(c, g):
    off = make_value(("int",), "offset", c)
    return {"args": [], "env": {"offset": off}, "inputs": {"offset": off}}


_ALLT = ["i8", "u8", "i16", "u16", "i32", "u32", "i64", "u64", "ptr", "f32", "f64"]
CONTRACTS.append(Contract(
    _M40, "C40", label="determine_arg_locations: loop body preserves the invariant (any offset)",
    # quick: the first, the last and the exhausted state of each register file; thorough: every reachable state
    grid=[{"ni": ni, "nf": nf, "t": t} for ni in ((0, 5, 6) if tier() == "quick" else range(7)) for nf in ((0, 7, 8) if tier() == "quick" else range(9)) for t in _ALLT],
    make=_step_mk, call=_step_call, replay_args=lambda g, v: {"args": [], "env": dict(v)},
    sample_inputs=lambda g, rnd: [{"offset": o} for o in (16, 24, 16 + 8 * rnd.randrange(1, 1 << 20))],
    ensures=_step_post))


def _init_call(fn, env, args, kwargs):
    pre, body = _cut()
    try:
        return pre(arch(), [])
    except NameError as e:
        raise Undecided("contract stale: the preamble reads %s" % e)


def _init_post(e):
    INT, FLT = _regfiles()
    int_regs, float_regs, offset, arg_locs = e.result
    yield ("before the first argument: all six integer registers available, in System V order", list(int_regs) == INT)
    yield ("before the first argument: xmm0..7 available, in order", list(float_regs) == FLT)
    yield ("the first stack argument lives 16 bytes above the frame pointer", offset == 16)
    yield ("no location yet", list(arg_locs) == [])


CONTRACTS.append(Contract(
    _M40, "C40", label="determine_arg_locations: preamble establishes the invariant; tail returns arg_locs", grid=[{}],
    make=lambda c, g: {"args": [], "env": {}, "inputs": {}}, call=_init_call, replay_args=lambda g, v: {"args": [], "env": dict(v)},
    ensures=_init_post))


ASSUMED = ["the expected locations are the System V AMD64 psABI classification for scalar INTEGER / SSE arguments (3.2.3): six integer registers, eight SSE registers, "
           "8-byte stack slots in argument order; the first stack argument lives 16 bytes above the frame pointer (return address + saved rbp)"]
NOT_COVERED = ["preservation of callee-saved registers and of the stack pointer across a real call (needs an assembly shim), aggregates passed by value, varargs, "
               "interoperation with gcc-compiled objects through ELF / PLT32 relocations; prologue / epilogue code and the argument moves only as far as the executed corpus reaches"]
