"""C40 (slice) -- System V x86-64 calling convention: where arguments and return values live, and which
callee-saved registers a frame must preserve (X86_64Arch.determine_arg_locations / determine_rv_location /
get_callee_saved).

Bounded stand-in only, labelled bounded, never counted as proved: the postcondition -- the System V
AMD64 psABI classification (INTEGER arguments in rdi rsi rdx rcx r8 r9, SSE arguments in xmm0..7, the rest
on the stack in 8-byte slots in argument order starting 16 bytes above the frame pointer; return value
in rax / xmm0; a callee-saved register is preserved whenever the frame uses it or any alias of it) -- is
evaluated at run time on the real functions for EVERY signature up to N parameters over the IR scalar
types plus seeded random signatures up to 20 parameters (both register files exhausted)."""
import itertools
import multiprocessing as mp
import random

CONTRACTS = []
LEVEL = "exploration"
INT_REGS = ["rdi", "rsi", "rdx", "rcx", "r8", "r9"]
FAMILY = {}
for _fam, _members in {"rdi": ["rdi", "edi", "di", "dil"], "rsi": ["rsi", "esi", "si", "sil"], "rdx": ["rdx", "edx", "dx", "dl"],
                       "rcx": ["rcx", "ecx", "cx", "cl"], "r8": ["r8", "r8d", "r8w", "r8b"], "r9": ["r9", "r9d", "r9w", "r9b"],
                       "rax": ["rax", "eax", "ax", "al"]}.items():
    for _m in _members:
        FAMILY[_m] = _fam
WIDTH = {"i8": 8, "u8": 8, "i16": 16, "u16": 16, "i32": 32, "u32": 32, "i64": 64, "u64": 64, "ptr": 64}


def _types():
    from ppci import ir
    return {"i8": ir.i8, "u8": ir.u8, "i16": ir.i16, "u16": ir.u16, "i32": ir.i32, "u32": ir.u32, "i64": ir.i64, "u64": ir.u64,
            "ptr": ir.ptr, "f32": ir.f32, "f64": ir.f64}


_ARCH = {}


def arch():
    if "a" not in _ARCH:
        from ppci.api import get_arch
        _ARCH["a"] = get_arch("x86_64")
    return _ARCH["a"]


def expected_locations(sig):
    """System V classification: list of ('reg', family) / ('xmm', k) / ('stack', offset)"""
    out = []
    ni = nf = 0
    off = 16
    for t in sig:
        if t in ("f32", "f64"):
            if nf < 8:
                out.append(("xmm", nf))
                nf += 1
            else:
                out.append(("stack", off))
                off += 8
        else:
            if ni < 6:
                out.append(("reg", INT_REGS[ni]))
                ni += 1
            else:
                out.append(("stack", off))
                off += 8
    return out


def _describe(loc):
    from ppci.arch.stack import StackLocation
    if isinstance(loc, StackLocation):
        return ("stack", loc.offset)
    name = loc.name
    if name.startswith("xmm"):
        return ("xmm", int(name.replace("_single", "")[3:]))
    return ("reg", FAMILY.get(name, name))


def check_signature(sig):
    T = _types()
    errs = []
    try:
        locs = arch().determine_arg_locations([T[t] for t in sig])
    except Exception as e:
        return ["no exception, got %r" % (e,)]
    want = expected_locations(sig)
    got = [_describe(l) for l in locs]
    for i, (w, g) in enumerate(zip(want, got)):
        if w != g:
            errs.append("argument %d (%s) of %s is passed in %s, got %s" % (i, sig[i], list(sig), w, g))
            break
    if len(want) != len(got):
        errs.append("one location per argument")
    from ppci.arch.stack import StackLocation
    for i, l in enumerate(locs):
        if isinstance(l, StackLocation):
            need = 4 if sig[i] == "f32" else 8
            if l.size < need and sig[i] not in WIDTH:
                errs.append("stack slot of argument %d holds the value" % i)
        elif sig[i] in WIDTH and hasattr(l, "bitsize"):
            if l.bitsize < WIDTH[sig[i]]:
                errs.append("register of argument %d (%s) is wide enough (%d bits), got %s" % (i, sig[i], WIDTH[sig[i]], l.name))
    return errs


def check_function_enter(sig):
    """the callee side: every stack-passed argument is loaded from rbp + its System V offset"""
    from ppci.arch.x86_64 import registers as R
    T = _types()
    cls = {"i64": R.Register64, "u64": R.Register64, "ptr": R.Register64, "i32": R.Register32, "u32": R.Register32,
           "f64": R.XmmRegisterDouble, "f32": R.XmmRegisterSingle}
    if any(t not in cls for t in sig):
        return []
    args = [(T[t], cls[t]("v%d" % i)) for i, t in enumerate(sig)]
    try:
        ins = list(arch().gen_function_enter(args))
    except Exception as e:
        return ["gen_function_enter%r raises nothing, got %r" % (list(sig), e)]
    want = [off for kind, off in expected_locations(sig) if kind == "stack"]
    got = []
    for i in ins:
        for attr in ("rm", "src", "m"):
            rm = getattr(i, attr, None)
            if rm is not None and type(rm).__name__ == "RmMemDisp":
                got.append(rm.disp if hasattr(rm, "disp") else getattr(rm, "offset", None))
                break
    if got != want:
        return ["function entry of %s loads its stack arguments from rbp+%s, got rbp+%s" % (list(sig), want, got)]
    return []


def check_rv(t):
    T = _types()
    rv = arch().determine_rv_location(T[t])
    d = _describe(rv)
    want = ("xmm", 0) if t in ("f32", "f64") else ("reg", "rax")
    errs = []
    if d != want:
        errs.append("return value of type %s is in %s, got %s" % (t, want, d))
    if t in WIDTH and getattr(rv, "bitsize", 64) < WIDTH[t]:
        errs.append("return register for %s is wide enough" % t)
    return errs


def check_callee_saved(used_names):
    """every System V callee-saved register (rbx, r12-r15; rbp and rsp are handled by the prologue itself) that the frame uses --
    directly or through an alias such as ebx / bl / r12d -- is in the list of registers to save"""
    from ppci.arch.stack import Frame
    from ppci.arch.x86_64 import registers as R
    a = arch()
    frame = Frame("f")
    allregs = {r.name: r for r in _all_registers()}
    frame.used_regs = {allregs[n] for n in used_names}
    saved = {r.name for r in a.get_callee_saved(frame)}
    errs = []
    for cs in ("rbx", "r12", "r13", "r14", "r15"):
        if cs not in allregs:
            continue        # not in ppci's register file: never allocated, nothing to preserve
        aliases = {r.name for r in a.info.alias[allregs[cs]]} | {cs}
        must = bool(aliases & set(used_names))
        if must and cs not in saved:
            errs.append("%s is preserved when the frame uses %s" % (cs, sorted(aliases & set(used_names))))
        if not must and cs in saved:
            pass        # saving more than necessary is allowed
    return errs


def _all_registers():
    a = arch()
    seen = {}
    for cls in a.info.register_classes:
        for r in cls.registers:
            seen[r.name] = r
            for x in a.info.alias.get(r, []):
                seen[x.name] = x
    return list(seen.values())


TYPES = ["i8", "i16", "i32", "i64", "ptr", "f32", "f64"]


def _chunk(args):
    n, lo, hi = args
    ev = 0
    bad = []
    for k in range(lo, hi):
        sig = []
        x = k
        for _ in range(n):
            sig.append(TYPES[x % len(TYPES)])
            x //= len(TYPES)
        ev += 1
        r = check_signature(tuple(sig)) or check_function_enter(tuple(sig))
        if r and len(bad) < 3:
            bad.append((list(sig), r[0]))
    return ev, bad


def _chunk_random(args):
    seed, count = args
    rng = random.Random(seed)
    ev = 0
    bad = []
    allt = list(_types())
    for _ in range(count):
        n = rng.randrange(7, 21)
        p = rng.random()
        sig = tuple(rng.choice(allt if p < 0.5 else (["f32", "f64", "i64"] if p < 0.8 else ["f32", "f32", "f64", "i32", "ptr"])) for _ in range(n))
        ev += 1
        r = check_signature(sig) or check_function_enter(sig)
        if r and len(bad) < 3:
            bad.append((list(sig), r[0]))
    return ev, bad


def bounded(tier_name, rnd):
    nmax = 6 if tier_name == "quick" else 8
    jobs = []
    for n in range(0, nmax + 1):
        total = len(TYPES) ** n
        step = max(total // 32, 1)
        for lo in range(0, total, step):
            jobs.append((n, lo, min(lo + step, total)))
    seed0 = rnd.randrange(1 << 30)
    nrand = 20000 if tier_name == "quick" else 200000
    with mp.get_context("fork").Pool(16) as pool:
        res = pool.map(_chunk, jobs)
        res_r = pool.map(_chunk_random, [(seed0 + i, nrand // 32) for i in range(32)])
    ev = sum(r[0] for r in res) + sum(r[0] for r in res_r)
    vio = []
    for _, bad in res + res_r:
        for sig, what in bad:
            if len(vio) < 5:
                vio.append({"name": what, "input": {"kind": "signature", "sig": sig}, "observed": what})
    for t in _types():
        ev += 1
        for what in check_rv(t):
            vio.append({"name": what, "input": {"kind": "rv", "type": t}, "observed": what})
    names = sorted(r.name for r in _all_registers())
    for n1 in names:
        ev += 1
        for what in check_callee_saved([n1]):
            if len(vio) < 8:
                vio.append({"name": what, "input": {"kind": "callee_saved", "used": [n1]}, "observed": what})
    return {"evaluations": ev, "distinct_nontrivial": ev, "exhaustive": False,
            "rule": "every signature of 0..%d parameters over %s (exhaustive) + %d seeded random signatures of 7..20 parameters over all 11 scalar IR types (seed %d); "
                    "every scalar return type; every single register of the register file as the only register a frame uses (callee-saved obligation); all cases distinct "
                    "by construction or drawn independently" % (nmax, TYPES, nrand, seed0),
            "bound": "exhaustive up to %d parameters; random up to 20" % nmax, "violations": vio,
            "samples": [{"signature": ["i64", "f32", "ptr", "i32"], "expected": expected_locations(["i64", "f32", "ptr", "i32"])},
                        {"signature": ["f64"] * 9 + ["f32", "i64"], "expected": expected_locations(["f64"] * 9 + ["f32", "i64"])}]}


def replay_bounded(inp):
    if inp["kind"] == "signature":
        r = check_signature(tuple(inp["sig"])) or check_function_enter(tuple(inp["sig"]))
    elif inp["kind"] == "rv":
        r = check_rv(inp["type"])
    else:
        r = check_callee_saved(inp["used"])
    if r:
        return False, {"case": inp, "failed": r[:3]}
    return True, {"case": inp, "observed": "postcondition holds"}


ASSUMED = ["the expected locations are the System V AMD64 psABI classification for scalar INTEGER / SSE arguments (3.2.3): six integer registers, eight SSE registers, "
           "8-byte stack slots in argument order; the first stack argument lives 16 bytes above the frame pointer (return address + saved rbp)"]
NOT_COVERED = ["prologue / epilogue code, stack alignment, the actual moves of gen_function_enter / gen_call, aggregates passed by value, varargs, "
               "interoperation with code from another compiler (needs execution; outside contract reach)"]
