"""Contracts generated from the relocation specification rows (C10 reject clause, C11 value clause)."""
import importlib
import z3
from pyvc.engine import Contract, make_value
from pyvc.spec import and_, or_, not_, tier
from pyvc.sym import SymInt, Undecided
from pyvc import models as MD
from contracts import relocspec as RS

MODS = ["ppci.utils.bitfun", "ppci.arch.token", "ppci.arch.encoding"]


def _cls(row):
    modname, clsname = row.cls.split(":")
    return getattr(importlib.import_module(modname), clsname)


def _mk(c, g):
    row = g["row"]
    S = make_value("int", "S", c)
    P = make_value("int", "P", c)
    A = make_value("int", "A", c) if row.uses_addend else 0
    data = MD.SymBuf.fresh(c, "data", row.size)
    env = {"S": S, "P": P, "A": A, "data": data, "word_old": data.word(row.endian)}
    inputs = {"S": S, "P": P, "data": SymSeqOf(data)}
    if row.uses_addend:
        inputs["A"] = A
    return {"args": [], "env": env, "inputs": inputs}


def SymSeqOf(buf):
    from pyvc.sym import SymSeq
    return SymSeq.from_list(buf.items, "bytearray")


def _replay(g, v):
    row = g["row"]
    data = bytearray(v["data"])
    word = int.from_bytes(bytes(data), row.endian)
    return {"args": [], "env": {"S": v["S"], "P": v["P"], "A": v.get("A", 0), "data": data, "word_old": word}}


def _call(fn, env, args, kwargs):
    row = env.row
    cls = _cls(row)
    rel = cls("sym", offset=0, addend=env.A) if row.uses_addend else cls("sym")
    return rel.apply(env.S, env.data, env.P)


def _pre(e):
    row = e.row
    out = list(row.pre(e.S, e.P, e.A))
    if row.template:
        out += list(row.template(e.word_old))
    return out


def _samples(g, rnd):
    row = g["row"]
    out = []
    for _ in range(60):
        base = rnd.choice([0, 0x1000, 0x20000000, 0x8000, 0x7FFFFFF0])
        d = rnd.choice([0, 2, 4, -2, -4, 8, 254, 256, -256, 1020, 1024, 2046, 2048, -2048, 4094, 4096, -4096,
                        (1 << 20) - 2, 1 << 20, -(1 << 20), (1 << 25), -(1 << 25), (1 << 31) - 4, 1 << 31, -(1 << 31),
                        rnd.randrange(-5000, 5000) * 2, rnd.randrange(-(1 << 22), 1 << 22) * 4])
        S, P = base + d, base
        if rnd.random() < 0.3:
            S, P = rnd.choice([0, 4, 0x1234, 0xFFFC, 0x10000, 0x12345678, 0xFFFFFFFC, 1 << 32, -4]), rnd.choice([0, 4, 8, 0x100])
        item = {"S": S, "P": P, "data": {"__bytearray__": [rnd.choice([0, 0, 0xFF, rnd.randrange(256)]) for _ in range(row.size)]}}
        if row.uses_addend:
            item["A"] = rnd.choice([0, -4, 4, 1 << 31])
        out.append(item)
    return out


def _le_items(x, row):
    items = MD.buf_items(x)
    return items if row.endian == "little" else list(reversed(items))


def seg_extract(items, wlo, n):
    """bits [wlo, wlo+n) of the little-endian word made of byte items, built byte-wise"""
    r = 0
    pos = 0
    while pos < n:
        b = (wlo + pos) // 8
        off = (wlo + pos) % 8
        take = min(8 - off, n - pos)
        piece = (items[b] >> off) & ((1 << take) - 1) if not isinstance(items[b], int) else (items[b] >> off) & ((1 << take) - 1)
        r = r + piece * (1 << pos)
        pos += take
    return r


def _value_post(e):
    row = e.row
    enc = row.value(e.S, e.P, e.A)
    items = _le_items(e.result, row)
    old = _le_items(e.old.data, row)
    out = [("result has the instruction's size", len(items) == row.size)]
    if len(items) != row.size:
        return out
    if row.post is not None:
        return out + list(row.post(old, items, e.S, e.P, e.A))      # (old bytes, new bytes) in little-endian order
    if row.expected is not None:
        exp = row.expected(e.word_old, e.S, e.P, e.A)
        got = MD.buf_word(e.result, row.endian)
        return out + [("word == specified word (field, U bit; every other bit unchanged)", got == exp)]
    fmask = 0
    for (wlo0, vlo0, n0) in row.layout:
        fmask |= ((1 << n0) - 1) << wlo0
        # one obligation per byte of the word that the segment touches
        pos = 0
        while pos < n0:
            wlo, vlo = wlo0 + pos, vlo0 + pos
            n = min(8 - wlo % 8, n0 - pos)
            out.append(("field bits [%d:%d) hold value bits [%d:%d)" % (wlo, wlo + n, vlo, vlo + n),
                        seg_extract(items, wlo, n) == (enc >> vlo) % (1 << n)))
            pos += n
    for j in range(row.size):
        keep = 0xFF & ~(fmask >> (8 * j))
        if keep:
            out.append(("frame: byte %d outside the field is unchanged" % j, (items[j] & keep) == (old[j] & keep)))
    return out


def value_contracts(prop):
    out = []
    for row in RS.all_rows():
        cls = _cls(row)
        out.append(Contract(
            row.cls + ".apply", prop, label="%s.apply[value]" % row.cls.split("ppci.arch.")[1],
            grid=[{"row": row}], modules=MODS, make=_mk, replay_args=_replay, call=_call, sample_inputs=_samples, setup=row.setup,
            requires=lambda e: _pre(e) + [e.row.rep(e.S, e.P, e.A)],
            ensures=_value_post,
            # a conservative rejection of a representable value is not what C10/C11 forbid
            allow_exceptions=(AssertionError, ValueError),
            notes=("manual" if row.manual else "structure-only") + (": " + row.note if row.note else ""),
        ))
    return out


def reject_contracts(prop):
    out = []
    for row in RS.all_rows():
        out.append(Contract(
            row.cls + ".apply", prop, label="%s.apply[reject]" % row.cls.split("ppci.arch.")[1],
            grid=[{"row": row}], modules=MODS, make=_mk, replay_args=_replay, call=_call, sample_inputs=_samples, setup=row.setup,
            requires=lambda e: _pre(e) + [not_(e.row.rep(e.S, e.P, e.A))],
            raises=[(Exception, lambda e: True)],
            ensures=lambda e: [],
            notes=("manual" if row.manual else "structure-only"),
        ))
    return out


def coverage_check():
    """every concrete Relocation subclass has a row or a stated reason"""
    import pkgutil
    import ppci.arch
    from ppci.arch.encoding import Relocation
    for m in pkgutil.walk_packages(ppci.arch.__path__, "ppci.arch."):
        try:
            importlib.import_module(m.name)
        except Exception:
            pass

    def subs(c):
        for s in c.__subclasses__():
            yield s
            yield from subs(s)
    have = {r.cls for r in RS.all_rows()} | set(RS.NO_ROW)
    missing = []
    for c in set(subs(Relocation)):
        key = "%s:%s" % (c.__module__, c.__name__)
        if key not in have:
            missing.append(key)
    return sorted(missing)
