"""C12 -- linker: section placement, content preservation, symbol definition errors
(ppci/binutils/linker.py: inject_object, merge_global_symbol, layout_sections, check_undefined_symbols;
ppci/binutils/objectfile.py: Image.data).

All contracts run the REAL Linker / ObjectFile / Layout objects.  The object-graph SHAPE (how many input
sections, symbols, relocations, memory inputs) is a grid parameter; every size, address, offset, symbol value
and every section's contents (byte sequences of ANY length) are symbolic.  Because the shape is bounded these
obligations are reported as shape-bounded (never counted as proved without bound); alignments range over the
concrete grid {1, 2, 4, 8, 16} so that `%` stays linear."""
import itertools
import types
import z3
from pyvc.engine import Contract, make_value
from pyvc.spec import and_, or_, not_, implies, ite, iff, tier, seq_eq, length, cat, seq_at
from pyvc.sym import SymInt, SymSeq, ctx, mkb, as_z3_int, mk
from pyvc import sym as S

MODS = ["ppci.binutils.linker", "ppci.binutils.objectfile"]
ALIGNS = (1, 2, 4)      # alignment 8 multiplies the residue paths of the padding loops beyond a practical budget (a_in=8: > 250 s per grid point)


def _arch():
    return types.SimpleNamespace(isa=types.SimpleNamespace(relocation_map={}), name="spec")


def _bytes(c, name):
    return make_value("bytearray", name, c)


def _len(x):
    return x._len() if isinstance(x, SymSeq) else len(x)


def _copy(x):
    return SymSeq(x.e, "bytearray", x.elem_bounds) if isinstance(x, SymSeq) else bytearray(x)


def align_up(v, m):
    """least multiple of m that is >= v (m concrete)"""
    return v + (m - v % m) % m


# ---- inject_object ------------------------------------------------------------------------------------
def _mk_inject(c, g):
    env = {"prev": _bytes(c, "prev"), "inp": _bytes(c, "inp"), "symval": make_value("int", "symval", c), "reloff": make_value("int", "reloff", c),
           "addend": make_value("int", "addend", c)}
    return {"args": [], "env": env, "inputs": dict(env)}


def _inject_call(fn, env, args, kwargs):
    from ppci.binutils.linker import Linker
    from ppci.binutils.objectfile import ObjectFile, RelocationEntry
    lk = Linker(_arch())
    lk.dst = ObjectFile(_arch())
    out = lk.dst.get_section("code", create=True)
    out.alignment = env.a_out
    out.data = _copy(env.prev)
    lk.dst.add_symbol(0, "existing", "global", 0, "code", "func", 0)
    obj = ObjectFile(_arch())
    sec = obj.get_section("code", create=True)
    sec.alignment = env.a_in
    sec.data = _copy(env.inp)
    obj.add_symbol(5, "f", "global", env.symval, "code", "func", 0)
    obj.add_symbol(6, "loc", "local", env.symval, "code", "object", 0)
    obj.add_symbol(7, "ext", "global", None, None, "func", 0)
    obj.add_relocation(RelocationEntry("r", 7, "code", env.reloff, env.addend))
    obj.add_relocation(RelocationEntry("r", 6, "code", env.reloff, env.addend))
    fn(lk, obj, False)
    env["lk"], env["obj"] = lk, obj
    return lk.dst


def _inject_post(e):
    dst = e.result
    out = dst.get_section("code")
    oldlen = _len(e.prev)
    off = align_up(oldlen, e.a_in)
    data = out.data
    res = [
        ("output alignment == max(old alignment, input alignment)", out.alignment == max(e.a_out, e.a_in)),
        ("output size == aligned old size + input size", _len(data) == off + _len(e.inp)),
    ]
    if S.active():
        k = SymInt(z3.Int(ctx().fresh_name("k")))
        res.append(("old bytes are preserved as a prefix (byte k, arbitrary k)", implies(and_(k >= 0, k < oldlen), seq_at(data, k) == seq_at(e.prev, k))))
        res.append(("input section bytes are preserved at the aligned offset (byte k, arbitrary k)",
                    implies(and_(k >= 0, k < _len(e.inp)), seq_at(data, off + k) == seq_at(e.inp, k))))
        res.append(("padding bytes are zero", implies(and_(k >= oldlen, k < off), seq_at(data, k) == 0)))
    else:
        res.append(("old bytes are preserved as a prefix", bytes(data[:oldlen]) == bytes(e.prev)))
        res.append(("input section bytes are preserved at the aligned offset", bytes(data[off:]) == bytes(e.inp)))
        res.append(("padding bytes are zero", all(b == 0 for b in data[oldlen:off])))
    f = dst.get_symbol("f")
    loc = [s for s in dst.symbols if s.name == "loc"]
    ext = dst.get_symbol("ext")
    res += [
        ("global symbol value is shifted by the section's offset in the output", and_(f.value == e.symval + off, f.section == "code")),
        ("local symbol is injected once and shifted by the same offset", len(loc) == 1 and bool(mk_bool(loc[0].value == e.symval + off))),
        ("undefined symbol stays undefined", ext.value is None and ext.section is None),
        ("two relocations injected", len(dst.relocations) == 2),
    ]
    if len(dst.relocations) == 2:
        r0, r1 = dst.relocations
        res += [("relocation offsets are shifted by the same offset", and_(r0.offset == e.reloff + off, r1.offset == e.reloff + off)),
                ("relocation addend, type and section are kept", and_(r0.addend == e.addend, r1.addend == e.addend) if True else True),
                ("relocations refer to the re-numbered symbols", r0.symbol_id == ext.id and r1.symbol_id == loc[0].id if loc else False)]
    return res


def mk_bool(x):
    return x


def _inject_samples(g, rnd):
    out = []
    for n in (0, 1, 2, 3, 4, 5, 7, 8, 9):
        out.append({"prev": {"__bytearray__": [rnd.randrange(1, 256) for _ in range(n)]}, "inp": {"__bytearray__": [rnd.randrange(1, 256) for _ in range(rnd.choice([0, 1, 4, 6]))]},
                    "symval": rnd.choice([0, 2, 4]), "reloff": rnd.choice([0, 2]), "addend": rnd.choice([0, -4])})
    return out


BOUNDED = []
BOUNDED.append(Contract(
    "ppci.binutils.linker:Linker.inject_object", "C12", label="Linker.inject_object [shape-bounded: one existing + one injected section, 3 symbols, 2 relocations]",
    grid=[{"a_out": a, "a_in": b} for a in ALIGNS for b in ALIGNS], modules=MODS, make=_mk_inject, call=_inject_call,
    sample_inputs=_inject_samples, replay_args=lambda g, v: {"args": [], "env": dict(v)}, ensures=_inject_post))


# ---- merge_global_symbol / check_undefined_symbols ---------------------------------------------------------
def _sym_call(fn, env, args, kwargs):
    from ppci.binutils.linker import Linker
    from ppci.binutils.objectfile import ObjectFile
    lk = Linker(_arch())
    lk.dst = ObjectFile(_arch())
    lk.dst.get_section("code", create=True)
    seq = env.seq
    for kind in seq:
        if kind == "def":
            lk.merge_global_symbol("s", "code", env.v1 if "first" not in env else env.v2, "func", 0)
            env["first"] = True
        else:
            lk.merge_global_symbol("s", None, None, "func", 0)
    env["lk"] = lk
    lk.check_undefined_symbols()
    return lk.dst


def _compiler_error():
    from ppci.common import CompilerError
    return CompilerError


def _sym_post(e):
    s = e.result.get_symbol("s")
    return [("exactly one symbol named s", len([x for x in e.result.symbols if x.name == "s"]) == 1),
            ("the symbol is defined with the value of its single definition", and_(s.value == e.old.v1, s.section == "code"))]


_SEQS = [s for n in (1, 2, 3) for s in itertools.product(("def", "undef"), repeat=n)]
BOUNDED.append(Contract(
    "ppci.binutils.linker:Linker.merge_global_symbol", "C12", label="Linker.merge_global_symbol + check_undefined_symbols [shape-bounded: up to 3 occurrences of one global]",
    grid=[{"seq": s} for s in _SEQS], modules=MODS,
    make=lambda c, g: (lambda env: {"args": [], "env": env, "inputs": dict(env)})({"v1": make_value("int", "v1", c), "v2": make_value("int", "v2", c)}),
    call=_sym_call, sample_inputs=lambda g, rnd: [{"v1": 4, "v2": 8}], replay_args=lambda g, v: {"args": [], "env": dict(v)},
    raises=[(_compiler_error(), lambda e: e.seq.count("def") != 1)],
    ensures=_sym_post))


# ---- layout_sections -------------------------------------------------------------------------------------------
def _mk_layout(c, g):
    env = {"loc": make_value("nat", "loc", c), "memsize": make_value("nat", "memsize", c)}
    for i, a in enumerate(g["aligns"]):
        env["d%d" % i] = _bytes(c, "d%d" % i)
    return {"args": [], "env": env, "inputs": dict(env)}


def _layout_call(fn, env, args, kwargs):
    from ppci.binutils.linker import Linker
    from ppci.binutils.objectfile import ObjectFile
    from ppci.binutils import layout as L
    lk = Linker(_arch())
    lk.dst = ObjectFile(_arch())
    mem = L.Memory("flash")
    mem.location = env.loc
    mem.size = env.memsize
    secs = []
    for i, a in enumerate(env.aligns):
        s = lk.dst.get_section("s%d" % i, create=True)
        s.alignment = a
        s.data = _copy(env["d%d" % i])
        secs.append(s)
        if env.align_between and i == 1:
            mem.add_input(L.Align(env.align_between))
        mem.add_input(L.Section("s%d" % i))
    lay = L.Layout()
    lay.add_memory(mem)
    env["secs"] = secs
    fn(lk, lay)
    env["lk"] = lk
    return lk.dst


def _expected_addresses(e):
    cur = e.loc
    out = []
    for i, a in enumerate(e.aligns):
        if e.align_between and i == 1:
            cur = align_up(cur, e.align_between)
        cur = align_up(cur, a)
        out.append(cur)
        cur = cur + _len(e["d%d" % i])
    return out, cur


def _layout_post(e):
    addrs, end = _expected_addresses(e.old if S.active() else e)
    res = []
    prev_end = e.loc
    for i, s in enumerate(e.secs):
        res.append(("section %d address satisfies its alignment" % i, s.address % e.aligns[i] == 0))
        res.append(("section %d starts at or after the end of the previous one (no overlap) and inside the region" % i, s.address >= prev_end))
        res.append(("section %d is placed at the first aligned address" % i, s.address == addrs[i]))
        res.append(("section %d contents unchanged" % i, seq_eq(s.data, e["d%d" % i])))
        prev_end = s.address + _len(s.data)
    res.append(("all sections end inside the memory region", prev_end <= e.loc + e.memsize))
    img = e.result.images[0] if e.result.images else None
    res.append(("one image at the region's location holding the sections in order",
                img is not None and [x.name for x in img.sections] == ["s%d" % i for i in range(len(e.secs))] and bool(mk_bool(img.address == e.loc))))
    return res


def _layout_overflow(e):
    addrs, end = _expected_addresses(e.old if S.active() and "old" in e else e)
    return end - e.loc > e.memsize


_LAYOUTS = [{"aligns": al, "align_between": ab} for n in ((1, 2) if tier() == "quick" else (1, 2, 3))
            for al in itertools.product((1, 4) if tier() == "quick" else (1, 2, 4), repeat=n) for ab in ((0, 4) if n > 1 else (0,))]
BOUNDED.append(Contract(
    "ppci.binutils.linker:Linker.layout_sections", "C12", label="Linker.layout_sections [shape-bounded: one memory, up to 3 sections, optional ALIGN]",
    grid=_LAYOUTS, modules=MODS + ["ppci.binutils.layout"], make=_mk_layout, call=_layout_call,
    sample_inputs=lambda g, rnd: [dict([("loc", rnd.choice([0, 0x100, 0x101, 3])), ("memsize", rnd.choice([0, 8, 16, 40, 1000]))] +
                                       [("d%d" % i, {"__bytearray__": [1] * rnd.choice([0, 1, 3, 4, 9])}) for i in range(len(g["aligns"]))]) for _ in range(12)],
    replay_args=lambda g, v: {"args": [], "env": dict(v)},
    raises=[(_compiler_error(), _layout_overflow)],
    ensures=_layout_post))


# ---- Image.data --------------------------------------------------------------------------------------------------
def _mk_image(c, g):
    env = {"base": make_value("int", "base", c)}
    for i in range(g["n"]):
        env["a%d" % i] = make_value("int", "a%d" % i, c)
        env["d%d" % i] = _bytes(c, "d%d" % i)
    return {"args": [], "env": env, "inputs": dict(env)}


def _image_call(fn, env, args, kwargs):
    from ppci.binutils.objectfile import Image, Section
    img = Image("img", env.base)
    for i in range(env.n):
        s = Section("s%d" % i)
        s.address = env["a%d" % i]
        s.data = _copy(env["d%d" % i])
        img.add_section(s)
    return img.data


def _image_overlap(e):
    cur = e.base
    bad = []
    for i in range(e.n):
        bad.append(e["a%d" % i] < cur)
        cur = e["a%d" % i] + _len(e["d%d" % i])
    return or_(*bad) if bad else False


def _image_post(e):
    data = e.result
    res = []
    end = e.base
    for i in range(e.n):
        a, d = e["a%d" % i], e["d%d" % i]
        if S.active():
            k2 = SymInt(z3.Int(ctx().fresh_name("k")))
            res.append(("section %d bytes sit at address - image.address (byte k, arbitrary k)" % i,
                        implies(and_(k2 >= 0, k2 < _len(d)), seq_at(data, a - e.base + k2) == seq_at(d, k2))))
        else:
            res.append(("section %d bytes sit at address - image.address" % i, bytes(data[a - e.base:a - e.base + len(d)]) == bytes(d)))
        if S.active():
            k = SymInt(z3.Int(ctx().fresh_name("gap")))
            res.append(("gap before section %d is zero filled" % i, implies(and_(k >= end - e.base, k < a - e.base), seq_at(data, k) == 0)))
        else:
            res.append(("gap before section %d is zero filled" % i, all(b == 0 for b in data[end - e.base:a - e.base])))
        end = a + _len(d)
    res.append(("len(data) == end of the last section - image.address", _len(data) == end - e.base))
    return res


BOUNDED.append(Contract(
    "ppci.binutils.objectfile:Image.data", "C12", label="Image.data [shape-bounded: up to 3 sections]",
    grid=[{"n": n} for n in ((0, 1, 2) if tier() == "quick" else (0, 1, 2, 3))], modules=MODS, make=_mk_image, call=_image_call,
    sample_inputs=lambda g, rnd: [dict([("base", 16)] + [x for i in range(g["n"]) for x in (("a%d" % i, 16 + 8 * i + rnd.choice([0, 1, 2])), ("d%d" % i, {"__bytearray__": [7] * rnd.choice([0, 1, 5, 6, 9])}))]) for _ in range(12)],
    replay_args=lambda g, v: {"args": [], "env": dict(v)},
    raises=[(ValueError, _image_overlap)], ensures=_image_post))

CONTRACTS = list(BOUNDED)
BOUNDED_LABELS = [c.label for c in BOUNDED]
BOUNDS_TEXT = ("inject_object: one existing output section + one injected object (1 section, 3 symbols, 2 relocations) for every pair of alignments in %s; merge_global_symbol: every "
               "sequence of up to 3 defined/undefined occurrences; layout_sections: one memory with up to 3 sections (alignments from the grid) and an optional ALIGN; Image.data: up to 3 "
               "sections; all sizes, addresses, values and byte contents symbolic" % (ALIGNS,))
LEVEL = "exploration"
ASSUMED = ["alignments are powers of two from the stated grid", "logger calls have no effect on program state"]
NOT_COVERED = ["object graphs larger than the stated shapes (the per-element loops are unrolled, not cut at invariants)", "the layout-file parser, SectionData / SymbolDefinition inputs, "
               "debug information merging, library resolution", "relocation patching (C11) and relaxation (C13)"]
