"""C39 -- bit helpers of ppci/utils/bitfun.py against their textbook definitions.

Grid: bit widths (quick: 8,16,32,64; thorough: 1..64); all values symbolic.
"""
from pyvc.engine import Contract, Loop
from pyvc.spec import (and_, or_, not_, implies, ite, chain_spec, bsum, b2i, bit, tier, pick)

M = "ppci.utils.bitfun"
BITS = [1, 5, 8, 16, 24, 32, 64] if tier() == "quick" else list(range(1, 65))
BITS1 = BITS  # widths >= 1


# ---------------------------------------------------------------- spec functions
def umod(v, w):
    return v % (1 << w)


def sext(v, w):
    u = umod(v, w)
    return ite(u >= (1 << (w - 1)), lambda: u - (1 << w), lambda: u)


def ror(v, k, w):
    """rotate right the w-bit value v (0 <= v < 2^w) by concrete k in range(w)"""
    if k == 0:
        return v
    return v // (1 << k) + (v % (1 << k)) * (1 << (w - k))


def rol(v, k, w):
    return ror(v, (w - k) % w, w)


def rotr_spec(v, count, w):
    return chain_spec(count % w, w, lambda k: ror(v, k, w))


def rotl_spec(v, count, w):
    return chain_spec(count % w, w, lambda k: rol(v, k, w))


def revbits(v, w):
    return bsum(bit(v, i) * (1 << (w - 1 - i)) for i in range(w))


def bitlen(u, w):
    return bsum(b2i(u >= (1 << i)) for i in range(w))


def clz_ok(v, w, c):
    """c is the number of leading zeros of the w-bit value u = v mod 2^w:
    c == w and u == 0,  or  c < w and 2^(w-1-c) <= u < 2^(w-c)."""
    u = umod(v, w)
    c = pick(c, w + 1)
    if not isinstance(c, int):
        return False
    if c == w:
        return u == 0
    if c < 0 or c > w:
        return False
    return and_(u >= (1 << (w - 1 - c)), u < (1 << (w - c)))


def ctz_ok(v, w, c):
    """c trailing zeros: c == w and u == 0, or c < w, 2^c | u and bit c of u set."""
    u = umod(v, w)
    c = pick(c, w + 1)
    if not isinstance(c, int):
        return False
    if c == w:
        return u == 0
    if c < 0 or c > w:
        return False
    return and_(u % (1 << c) == 0, bit(u, c) == 1)


def popc_upto(v, n, w):
    """number of one bits among bits 0..n-1 of v"""
    n = pick(n, w + 1)
    return bsum(bit(v, i) for i in range(n))


def popcnt_spec(v, w):
    return bsum(bit(v, i) for i in range(w))


def imm32_ok(v):
    return or_(*[rol(v, 2 * i, 32) < 256 for i in range(16)])


def _imm32_post(e):
    out = [("0 <= result < 2^12", and_(e.result >= 0, e.result < (1 << 12)))]
    rot = pick(e.result // 256, 16)
    imm = e.result % 256
    if not isinstance(rot, int) or not (0 <= rot < 16):
        return out + [("rotation in range(16)", False)]
    out.append(("ror32(imm8, 2*rot) == v", ror(imm, (2 * rot) % 32, 32) == e.v))
    out.append(("rotation is the smallest", and_(*([rol(e.v, 2 * j, 32) >= 256 for j in range(rot)] or [True]))))
    return out


CONTRACTS = []


def in_word(w):
    return lambda e: [e.v >= 0, e.v < (1 << w)]


# rotate_right / rotate_left (32 bit)
CONTRACTS.append(Contract(
    M + ":rotate_right", "C39", params={"v": ("range", 0, 1 << 32), "n": "int"},
    grid=[{"n": n} for n in range(0, 33)],
    ensures=lambda e: [("result == ror32(v, n)", e.result == ror(e.v, e.n % 32, 32))],
))
CONTRACTS.append(Contract(
    M + ":rotate_left", "C39", params={"v": ("range", 0, 1 << 32), "n": "int"},
    grid=[{"n": n} for n in range(0, 32)],
    ensures=lambda e: [("result == rol32(v, n)", e.result == rol(e.v, e.n, 32))],
))

# rotl / rotr (any count)
for fname, sp in (("rotl", rotl_spec), ("rotr", rotr_spec)):
    CONTRACTS.append(Contract(
        M + ":" + fname, "C39", params={"v": "int", "count": "int", "bits": "int"},
        grid=[{"bits": w} for w in BITS],
        requires=lambda e: [e.v >= 0, e.v < (1 << e.bits)],
        ensures=(lambda sp: lambda e: [("result == spec", e.result == sp(e.v, e.count, e.bits)),
                                       ("result in range", and_(e.result >= 0, e.result < (1 << e.bits)))])(sp),
    ))

# reverse_bits
CONTRACTS.append(Contract(
    M + ":reverse_bits", "C39", params={"v": "int", "bits": "int"},
    grid=[{"bits": w} for w in BITS],
    requires=lambda e: [e.v >= 0, e.v < (1 << e.bits)],
    ensures=lambda e: [("result == revbits(v, bits)", e.result == revbits(e.v, e.bits))],
))

# correct / to_signed / to_unsigned : every integer value
CONTRACTS.append(Contract(
    M + ":to_unsigned", "C39", params={"value": "int", "bits": "int"},
    grid=[{"bits": w} for w in BITS],
    ensures=lambda e: [("result == value mod 2^bits", e.result == umod(e.value, e.bits))],
))
CONTRACTS.append(Contract(
    M + ":to_signed", "C39", params={"value": "int", "bits": "int"},
    grid=[{"bits": w} for w in BITS],
    ensures=lambda e: [("result == sext(value mod 2^bits)", e.result == sext(e.value, e.bits)),
                       ("result in signed range", and_(e.result >= -(1 << (e.bits - 1)), e.result < (1 << (e.bits - 1)))),
                       ("result congruent", (e.result - e.value) % (1 << e.bits) == 0)],
))
CONTRACTS.append(Contract(
    M + ":sign_extend", "C39", params={"value": "int", "bits": "int"},
    grid=[{"bits": w} for w in BITS],
    ensures=lambda e: [("result == sext(value mod 2^bits)", e.result == sext(e.value, e.bits))],
))

# clz / ctz : every integer v (the wasm runtime passes signed values)
CONTRACTS.append(Contract(
    M + ":clz", "C39", params={"v": "int", "bits": "int"},
    grid=[{"bits": w} for w in BITS],
    ensures=lambda e: [("result == clz(v mod 2^bits)", clz_ok(e.v, e.bits, e.result))],
    loops={0: Loop(
        havoc={"count": lambda old: ("small", 0, old.bits + 1), "v": "int"},
        invariant=lambda e: [
            ("v == v0 * 2^count", e.v == e.old.v * (1 << e.count)),
            ("top count bits of v0 mod 2^bits are zero", umod(e.old.v, e.old.bits) < (1 << (e.old.bits - e.count))),
        ],
        decreases=lambda e: e.old.bits - e.count,
    )},
))
CONTRACTS.append(Contract(
    M + ":ctz", "C39", params={"v": "int", "bits": "int"},
    grid=[{"bits": w} for w in BITS],
    ensures=lambda e: [("result == ctz(v mod 2^bits)", ctz_ok(e.v, e.bits, e.result))],
    loops={0: Loop(
        havoc={"count": lambda old: ("small", 0, old.bits + 1), "v": "int"},
        invariant=lambda e: [
            ("v == v0 // 2^count", e.v == e.old.v // (1 << e.count)),
            ("low count bits of v0 are zero", e.old.v % (1 << e.count) == 0),
        ],
        decreases=lambda e: e.old.bits - e.count,
    )},
))

# popcnt : loop invariant over the bit index (a plain unrolling forks 2^bits paths)
CONTRACTS.append(Contract(
    M + ":popcnt", "C39", params={"v": "int", "bits": "int"},
    grid=[{"bits": w} for w in BITS],
    ensures=lambda e: [("result == popcount(v mod 2^bits)", e.result == popcnt_spec(e.v, e.bits))],
    loops={0: Loop(
        havoc={"count": "int", "it0__": "rangeiter"},
        invariant=lambda e: [
            ("0 <= i <= bits", and_(e.it0__.cur >= 0, e.it0__.cur <= e.old.bits)),
            ("count == popcount(low i bits)", e.count == popc_upto(e.old.v, e.it0__.cur, e.old.bits)),
        ],
        decreases=lambda e: e.old.bits - e.it0__.cur,
    )},
))

# encode_imm32
CONTRACTS.append(Contract(
    M + ":encode_imm32", "C39", params={"v": ("range", 0, 1 << 32)},
    raises=[(ValueError, lambda e: not_(imm32_ok(e.v)))],
    ensures=lambda e: _imm32_post(e),
))

NOT_COVERED = ["widths above 64 bits (grid is 1..64 in the thorough tier, 8/16/32/64 in the quick tier)"]
ASSUMED = []
