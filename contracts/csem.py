"""C integer semantics (C11 6.3.1.3, 6.5.x) as executable spec functions, shared by C26 / C27.

A C integer type is (bits, signed).  c_binop returns (defined, value): `defined` is the condition
under which C11 gives the operation a defined (or, for >> of negative values, the universally
implemented arithmetic-shift) result; the contracts only constrain the evaluator where `defined`."""
from pyvc.spec import and_, or_, not_, implies, ite, iff, tdiv, trem, b2i


def lo_hi(bits, signed):
    return (-(1 << (bits - 1)), (1 << (bits - 1)) - 1) if signed else (0, (1 << bits) - 1)


def in_range(x, bits, signed):
    lo, hi = lo_hi(bits, signed)
    return and_(x >= lo, x <= hi)


def wrap(x, bits, signed):
    """conversion to an integer type (6.3.1.3; signed: the two's-complement result every implementation gives)"""
    u = x % (1 << bits)
    if not signed:
        return u
    return ite(u >= (1 << (bits - 1)), lambda: u - (1 << bits), lambda: u)


ARITH = ["+", "-", "*", "/", "%", "<<", ">>", "&", "|", "^"]
COMPARE = ["<", ">", "<=", ">=", "==", "!="]
LOGIC = ["&&", "||"]


def c_defined(op, a, b, bits, signed):
    """condition under which  a op b  has a defined value (evaluates no division / shift)"""
    lo, hi = lo_hi(bits, signed)
    if op in ("+", "-", "*") and signed:
        m = {"+": a + b, "-": a - b, "*": a * b}[op]
        return and_(m >= lo, m <= hi)
    if op in ("/", "%"):
        return and_(b != 0, not_(and_(a == lo, b == -1))) if signed else (b != 0)
    if op == "<<":
        inb = and_(b >= 0, b < bits)
        if signed:
            return and_(inb, a >= 0)      # plus `a << b` representable: c_defined_steps
        return inb
    if op == ">>":
        return and_(b >= 0, b < bits)
    return True


def c_defined_steps(op, a, b, bits, signed):
    """generator of conjuncts of the definedness condition; each may assume the previous ones"""
    yield c_defined(op, a, b, bits, signed)
    if op == "<<" and signed:
        lo, hi = lo_hi(bits, signed)
        yield a * pow2i(b) <= hi


def c_binop(op, a, b, bits, signed):
    """(defined, value) of  a op b  for operands of type (bits, signed) (after the usual conversions);
    call only under c_defined"""
    lo, hi = lo_hi(bits, signed)
    if op in ("+", "-", "*"):
        m = {"+": a + b, "-": a - b, "*": a * b}[op]
        if signed:
            return and_(m >= lo, m <= hi), m          # signed overflow is undefined
        return True, m % (1 << bits)
    if op == "/":
        d = and_(b != 0, not_(and_(a == lo, b == -1))) if signed else (b != 0)
        return d, tdiv(a, b)
    if op == "%":
        d = and_(b != 0, not_(and_(a == lo, b == -1))) if signed else (b != 0)
        return d, a - b * tdiv(a, b)          # C11 6.5.5p6: (a/b)*b + a%b == a
    if op == "<<":
        inb = and_(b >= 0, b < bits)
        if signed:
            return and_(inb, a >= 0, a * pow2i(b) <= hi), a * pow2i(b)
        return inb, (a * pow2i(b)) % (1 << bits)
    if op == ">>":
        return and_(b >= 0, b < bits), a // pow2i(b)      # floor = arithmetic shift for negative a
    if op in ("&", "|", "^"):
        v = (a & b) if op == "&" else ((a | b) if op == "|" else (a ^ b))
        return True, v
    if op in COMPARE:
        c = {"<": a < b, ">": a > b, "<=": a <= b, ">=": a >= b, "==": a == b, "!=": a != b}[op]
        return True, b2i(c)
    if op == "&&":
        return True, b2i(and_(a != 0, b != 0))
    if op == "||":
        return True, b2i(or_(a != 0, b != 0))
    raise KeyError(op)


def pow2i(b):
    """2**b for a shift count (concrete after the engine's small-range fork, or symbolic)"""
    return 1 << b


def c_unop(op, a, bits, signed):
    lo, hi = lo_hi(bits, signed)
    if op == "-":
        if signed:
            return a != lo, -a
        return True, (-a) % (1 << bits)
    if op == "~":
        return True, wrap(-a - 1, bits, signed)
    if op == "+":
        return True, a
    if op == "!":
        return True, b2i(a == 0)
    raise KeyError(op)
