"""C24 (slice) -- ir2py: the arithmetic templates of the generated Python code against IR semantics.

Every run calls the REAL generator (IrToPythonCompiler.generate_runtime / gen_binop / gen_cast) on stub
instructions, takes the Python text it emits, and executes that text on symbolic proxies:
  * runtime helpers IrPy.correct / idiv / irem / ishl / ishr,
  * the code emitted for every (binary operator, integer type) pair,
  * the code emitted for every integer cast pair and for float -> integer casts,
  * load_<ty> / store_<ty> helpers (format size / signedness, round trip, frame).
IR semantics: + - * wrap modulo 2^n into the type's range, / and % truncate toward zero, << >> for
0 <= b < n (>> arithmetic for signed), & | ^ bitwise, integer casts wrap, float -> int truncates toward zero."""
import builtins as _b
import io
import z3
from pyvc.engine import Contract, make_value
from pyvc.spec import and_, or_, not_, implies, ite, iff, tdiv, trem, tier, pick
from pyvc.sym import SymInt, SymBool, SymSeq, ctx, Undecided
from pyvc import pybuiltins as PB, models as MD, symfloat as SF, sym as S

M = "ppci.lang.python.ir2py"


def _ir():
    from ppci import ir
    return ir


def int_types():
    ir = _ir()
    return [ir.i8, ir.i16, ir.i32, ir.i64, ir.u8, ir.u16, ir.u32, ir.u64]


def lo_hi(ty):
    n = ty.bits
    return (-(1 << (n - 1)), 1 << (n - 1)) if ty.signed else (0, 1 << n)


def wrap(ty, x):
    n = ty.bits
    u = x % (1 << n)
    if ty.signed:
        return ite(u >= (1 << (n - 1)), lambda: u - (1 << n), lambda: u)
    return u


def ir_defined(op, ty, a, b):
    if op in ("/", "%"):
        return [b != 0]
    if op in ("<<", ">>", "rol", "ror"):
        return [b >= 0, b < ty.bits]
    return []


def ir_binop(op, ty, a, b):
    if op == "+":
        return wrap(ty, a + b)
    if op == "-":
        return wrap(ty, a - b)
    if op == "*":
        return wrap(ty, a * b)
    if op == "/":
        return wrap(ty, tdiv(a, b))
    if op == "%":
        return wrap(ty, trem(a, b))
    if op == "<<":
        return wrap(ty, a << b)
    if op == ">>":
        return wrap(ty, a >> b)
    if op == "&":
        return wrap(ty, a & b)
    if op == "|":
        return wrap(ty, a | b)
    if op == "^":
        return wrap(ty, a ^ b)
    if op in ("rol", "ror"):
        # rotation of the n-bit pattern of a by b positions (0 <= b < n), reinterpreted in the type
        n = ty.bits
        u = a % (1 << n)
        k = pick(b, n)
        if not isinstance(k, int):
            raise Undecided("rotation count not concretised")
        if k == 0:
            return wrap(ty, u)
        left = k if op == "rol" else n - k
        return wrap(ty, (u * (1 << left)) % (1 << n) + u // (1 << (n - left)))
    raise Undecided("no IR specification for %r" % op)


OPS = ["+", "-", "*", "/", "%", "<<", ">>", "&", "|", "^", "rol", "ror"]


# ---- mechanical extraction: the text the real generator emits ---------------------------------------
def runtime_source():
    from ppci.lang.python.ir2py import irpy_runtime_code
    f = io.StringIO()
    irpy_runtime_code(f)
    return f.getvalue()


def _exec_env():
    """globals for the emitted text: builtins shadowed by the proxy-aware versions, struct / math proxies"""
    bi = dict(vars(_b))
    bi.update(PB.REPLACEMENTS)
    real_import = _b.__import__

    def imp(name, *a, **k):
        if name == "struct":
            return MD.struct_proxy
        if name == "math":
            return SF.MATH
        return real_import(name, *a, **k)
    bi["__import__"] = imp
    return {"__builtins__": bi}


def load_runtime(symbolic=True):
    src = runtime_source()
    g = _exec_env() if symbolic else {}
    exec(compile(src, "<generated irpy runtime>", "exec"), g)
    return g


def emitted_binop(op, ty):
    from ppci.lang.python.ir2py import IrToPythonCompiler
    ir = _ir()
    f = io.StringIO()
    gen = IrToPythonCompiler(f, None)
    a = ir.Const(0, "a", ty)
    b = ir.Const(0, "b", ty)
    ins = ir.Binop(a, op, b, "r", ty)
    gen.gen_binop(ins)
    return f.getvalue(), ins.name


def emitted_cast(src_ty, dst_ty):
    from ppci.lang.python.ir2py import IrToPythonCompiler
    ir = _ir()
    f = io.StringIO()
    gen = IrToPythonCompiler(f, None)
    a = ir.Const(0, "a", src_ty)
    ins = ir.Cast(a, "r", dst_ty)
    gen.gen_cast(ins)
    return f.getvalue(), ins.name


def _run_text(text, env_vars, symbolic):
    g = load_runtime(symbolic)
    g.update(env_vars)
    exec(compile(text, "<generated ir2py statement>", "exec"), g)
    return g


# ---- binary operators ---------------------------------------------------------------------------------
def _mk_ab(c, g):
    lo, hi = lo_hi(g["ty"])
    a = make_value(("range", lo, hi), "a", c)
    b = make_value(("range", lo, hi), "b", c)
    return {"args": [], "env": {"a": a, "b": b}, "inputs": {"a": a, "b": b}}


def _samples_ab(g, rnd):
    lo, hi = lo_hi(g["ty"])
    vals = [v for v in [lo, lo + 1, -7, -3, -2, -1, 0, 1, 2, 3, 7, g["ty"].bits - 1, hi - 2, hi - 1, hi // 2, 100, -100] if lo <= v < hi]
    return [{"a": rnd.choice(vals), "b": rnd.choice(vals)} for _ in range(40)]


def _binop_call(fn, env, args, kwargs):
    text, name = emitted_binop(env.op, env.ty)
    env["text"] = text
    g = _run_text(text, {"a": env.a, "b": env.b}, S.active())
    return g[name]


CONTRACTS = []
for _op in OPS:
    CONTRACTS.append(Contract(
        M + ":IrToPythonCompiler.gen_binop", "C24", label="emitted code of gen_binop(%s)" % _op,
        grid=[{"op": _op, "ty": t} for t in (int_types() if (_op not in ("rol", "ror") or tier() != "quick") else [_ir().i8, _ir().u16, _ir().i32, _ir().u64])],
        make=_mk_ab, call=_binop_call, sample_inputs=_samples_ab,
        replay_args=lambda g, v: {"args": [], "env": dict(v)},
        requires=lambda e: ir_defined(e.op, e.ty, e.a, e.b),
        ensures=lambda e: [("emitted code computes the IR value of (a %s b) in %s" % (e.op, e.ty.name), e.result == ir_binop(e.op, e.ty, e.a, e.b)),
                           ("result is in the type's range", and_(e.result >= lo_hi(e.ty)[0], e.result < lo_hi(e.ty)[1]))]))


# ---- float binary operators: concrete operand grid, run natively (IEEE-754 arithmetic is not modelled symbolically) ----
# + - * / on f64 are the host's binary64 operations with IEEE results for a zero divisor; f32 results are rounded to binary32.
def _float_cases():
    from contracts import wasmspec as W
    out = []
    for n in (64, 32):
        vals = [x for x in W.fvals(n) if x == x][:24] + [float("inf"), float("-inf"), float("nan"), 0.0, -0.0]
        pairs = [(a, b) for a in (0.0, -0.0, 1.0, -1.5, float("inf"), float("-inf"), float("nan"), 16777216.0, 3.0e38 if n == 32 else 1e308, 0.1 if n == 64 else W.f32r(0.1))
                 for b in vals]
        for op, wop in (("+", "add"), ("-", "sub"), ("*", "mul"), ("/", "div")):
            out.append({"op": op, "wop": wop, "n": n, "pairs": pairs})
    return out


def _float_binop_call(fn, env, args, kwargs):
    from contracts import wasmspec as W
    ir = _ir()
    ty = ir.f64 if env.n == 64 else ir.f32
    text, name = emitted_binop(env.op, ty)
    bad = []
    for a, b in env.pairs:
        try:
            got = _run_text(text, {"a": a, "b": b}, False)[name]
        except Exception as ex:
            got = "raised %s" % type(ex).__name__
        want = W.fbin(env.wop, env.n, a, b)
        if not (isinstance(got, float) and W.same(got, want)):
            bad.append((a, b, want, got))
    return bad


CONTRACTS.append(Contract(
    M + ":IrToPythonCompiler.gen_binop", "C24", label="emitted code of gen_binop on f32 / f64, concrete operand grid (native)", grid=_float_cases(),
    make=lambda c, g: {"args": [], "env": {}, "inputs": {}}, call=_float_binop_call, sample_inputs=lambda g, rnd: [{}], replay_args=lambda g, v: {"args": [], "env": {}},
    ensures=lambda e: [("every pair of the grid gives the IEEE-754 result in the type (zero divisors, NaN, overflow to infinity, binary32 rounding)", e.result == [])]))


def _float_cast_call(fn, env, args, kwargs):
    from contracts import wasmspec as W
    ir = _ir()
    src = {"i32": ir.i32, "u32": ir.u32, "i64": ir.i64, "u64": ir.u64, "f64": ir.f64}[env.src]
    text, name = emitted_cast(src, ir.f32)
    bad = []
    for a in env.vals:
        got = _run_text(text, {"a": a}, False)[name]
        want = W.f32r(a) if isinstance(a, float) else W.convert(32, 64, True, a)
        if not (isinstance(got, float) and W.same(got, want)):
            bad.append((a, want, got))
    return bad


_I2F = [0, 1, -1, 16777216, 16777217, 16777219, -16777217, 2147483647, -2147483648, 4294967295, (1 << 53) + 1, (1 << 62) + (1 << 38), (1 << 62) + (1 << 38) + 1,
        9223372036854775807, -9223372036854775808, 18446744073709551615, 0x7FFFFF4000000001, 0x7FFFFF4000000000, 33554434, 33554438]
CONTRACTS.append(Contract(
    M + ":IrToPythonCompiler.gen_cast", "C24", label="emitted code of gen_cast(-> f32), concrete operand grid (native)",
    grid=[{"src": t, "vals": [v for v in _I2F if (-(1 << (int(t[1:]) - 1)) <= v < (1 << (int(t[1:]) - 1))) or (t[0] == "u" and 0 <= v < (1 << int(t[1:])))]} for t in ("i32", "u32", "i64", "u64")]
         + [{"src": "f64", "vals": [0.0, -0.0, 1e300, -1e300, 0.1, 16777217.0, 3.4028235677973366e38, 3.4028234663852886e38, 1e-46, float("inf"), float("nan"), 4294967295.0]}],
    make=lambda c, g: {"args": [], "env": {}, "inputs": {}}, call=_float_cast_call, sample_inputs=lambda g, rnd: [{}], replay_args=lambda g, v: {"args": [], "env": {}},
    ensures=lambda e: [("the value is rounded once to binary32 (ties to even; integers beyond 2^53 are not rounded twice)", e.result == [])]))


# ---- unary operators ---------------------------------------------------------------------------------------
def emitted_unop(op, ty):
    from ppci.lang.python.ir2py import IrToPythonCompiler
    ir = _ir()
    f = io.StringIO()
    gen = IrToPythonCompiler(f, None)
    a = ir.Const(0, "a", ty)
    ins = ir.Unop(op, a, "r", ty)
    gen.generate_instruction(ins, None)
    return f.getvalue(), ins.name


def _unop_call(fn, env, args, kwargs):
    text, name = emitted_unop(env.op, env.ty)
    g = _run_text(text, {"a": env.a}, S.active())
    return g[name]


for _op in ("-", "~"):
    CONTRACTS.append(Contract(
        M + ":IrToPythonCompiler.generate_instruction", "C24", label="emitted code of the unary operator %s" % _op,
        grid=[{"op": _op, "ty": t, "src": t} for t in int_types()], make=lambda c, g: _mk_a(c, g), call=_unop_call,
        sample_inputs=lambda g, rnd: [{"a": d["a"]} for d in _samples_ab(g, rnd)], replay_args=lambda g, v: {"args": [], "env": dict(v)},
        ensures=lambda e: [("emitted code computes the IR value of (%s a) in %s" % (e.op, e.ty.name),
                            e.result == wrap(e.ty, (-e.a) if e.op == "-" else (-e.a - 1)))]))


# ---- runtime helpers on every integer (not only in-range operands) -----------------------------------------
def _helper_call(name):
    def call(fn, env, args, kwargs):
        g = load_runtime(S.active())
        f = getattr(g["IrPy"], name)
        return f(*[env[k] for k in env["argnames"]])
    return call


for _ty in int_types():
    CONTRACTS.append(Contract(
        M + ":IrToPythonCompiler.generate_builtins", "C24", label="IrPy.correct(value, %d, %s)" % (_ty.bits, _ty.signed),
        grid=[{"ty": _ty, "argnames": ("value", "bits", "signed"), "bits": _ty.bits, "signed": _ty.signed}],
        params={"value": "int"}, call=_helper_call("correct"),
        ensures=lambda e: [("result == value wrapped into the type", e.result == wrap(e.ty, e.value))]))
CONTRACTS.append(Contract(
    M + ":IrToPythonCompiler.generate_builtins", "C24", label="IrPy.idiv(x, y)", grid=[{"argnames": ("x", "y")}],
    params={"x": "int", "y": "int"}, call=_helper_call("idiv"), requires=lambda e: [e.y != 0],
    ensures=lambda e: [("result == x / y truncated toward zero", e.result == tdiv(e.x, e.y))]))
CONTRACTS.append(Contract(
    M + ":IrToPythonCompiler.generate_builtins", "C24", label="IrPy.irem(x, y)", grid=[{"argnames": ("x", "y")}],
    params={"x": "int", "y": "int"}, call=_helper_call("irem"), requires=lambda e: [e.y != 0],
    ensures=lambda e: [("result == remainder of division truncating toward zero: sign(x) * (|x| mod |y|)", e.result == trem(e.x, e.y))]))


# ---- casts --------------------------------------------------------------------------------------------------
def _mk_a(c, g):
    lo, hi = lo_hi(g["src"])
    a = make_value(("range", lo, hi), "a", c)
    return {"args": [], "env": {"a": a}, "inputs": {"a": a}}


def _cast_call(fn, env, args, kwargs):
    text, name = emitted_cast(env.src, env.ty)
    g = _run_text(text, {"a": env.a}, S.active())
    return g[name]


_INT_CASTS = [(s, t) for s in int_types() for t in int_types()]
CONTRACTS.append(Contract(
    M + ":IrToPythonCompiler.gen_cast", "C24", label="emitted code of gen_cast(int -> int)",
    grid=[{"src": s, "ty": t} for s, t in _INT_CASTS], make=_mk_a, call=_cast_call,
    sample_inputs=lambda g, rnd: [{"a": d["a"]} for d in _samples_ab({"ty": g["src"]}, rnd)],
    replay_args=lambda g, v: {"args": [], "env": dict(v)},
    ensures=lambda e: [("cast wraps the value into the target type", e.result == wrap(e.ty, e.a))]))

_FS = [0.0, -0.0, 0.5, -0.5, 1.5, -1.5, 2.5, -2.5, 3.5, 0.49999, 100.75, -100.75, 2.0**31 - 0.5, -(2.0**31) - 0.5, 1e10, -1e10, 255.5, 127.5, -128.5]
CONTRACTS.append(Contract(
    M + ":IrToPythonCompiler.gen_cast", "C24", label="emitted code of gen_cast(float -> int)",
    grid=[{"src": _ir().f64, "ty": t} for t in int_types()],
    make=lambda c, g: (lambda a: {"args": [], "env": {"a": a}, "inputs": {"a": a}})(make_value("float", "a", c)),
    call=_cast_call, sample_inputs=lambda g, rnd: [{"a": {"__float__": repr(x)}} for x in _FS],
    replay_args=lambda g, v: {"args": [], "env": dict(v)},
    requires=lambda e: [not_(e.a.isnan()), not_(e.a.isinf())] if isinstance(e.a, SF.SymFloat) else [e.a == e.a and abs(e.a) != float("inf")],
    ensures=lambda e: [("float -> int cast truncates toward zero, then wraps into the target type",
                        e.result == wrap(e.ty, SymInt(SF.real_to_int(e.a.r, "trunc")) if isinstance(e.a, SF.SymFloat) else int(e.a)))]))


# ---- load / store helpers ------------------------------------------------------------------------------------
def _mk_mem(c, g):
    lo, hi = lo_hi(g["ty"])
    v = make_value(("range", lo, hi), "v", c)
    stack = MD.SymBuf.fresh(c, "stack", 24)
    return {"args": [], "env": {"v": v, "stack": stack}, "inputs": {"v": v}}


def _mem_call(fn, env, args, kwargs):
    g = load_runtime(S.active())
    rt = g["rt"]
    rt.stack = env.stack if S.active() else bytearray(range(1, 25))
    env["before"] = list(rt.stack.items) if S.active() else list(rt.stack)
    getattr(rt, "store_" + env.ty.name)(8, env.v)
    env["after"] = list(rt.stack.items) if S.active() else list(rt.stack)
    return getattr(rt, "load_" + env.ty.name)(8)


def _mem_post(e):
    n = e.ty.bits // 8
    out = [("load_%s(store_%s(v)) == v" % (e.ty.name, e.ty.name), e.result == e.v)]
    for i in range(len(e.before)):
        if not (8 <= i < 8 + n):
            out.append(("frame: byte %d outside the %d stored bytes is unchanged" % (i, n), e.after[i] == e.before[i]))
    u = e.v % (1 << e.ty.bits)
    for i in range(n):
        out.append(("stored byte %d is byte %d of the little-endian two's-complement image" % (i, i), e.after[8 + i] == (u >> (8 * i)) % 256))
    return out


CONTRACTS.append(Contract(
    M + ":IrToPythonCompiler.generate_memory_builtins", "C24", label="IrPy.store_<ty> / load_<ty>",
    grid=[{"ty": t} for t in int_types()], make=_mk_mem, call=_mem_call,
    sample_inputs=lambda g, rnd: [{"v": rnd.choice([lo_hi(g["ty"])[0], lo_hi(g["ty"])[1] - 1, 0, 1, 77])} for _ in range(6)],
    replay_args=lambda g, v: {"args": [], "env": dict(v)}, ensures=_mem_post))

ASSUMED = ["IR semantics as stated in the module docstring (from the statements of C24 / C38)",
           "the emitted text is executed with proxy-aware builtins (int, round, isinstance, ...), struct and math replaced by their models (T4)",
           "struct formats without a byte-order prefix use the host order (little-endian here)",
           "finite doubles modelled as exact reals (pyvc.symfloat)"]
NOT_COVERED = ["control-flow emission (block dispatch, phi filling at block exits), calls, function pointers, alloca / free, the heap / stack memory model: only through the bounded stand-in "
               "(IR modules from the Python-subset and WebAssembly corpora), no contract", "pointer casts"]


# ---- bounded stand-in for control-flow emission (never counted as proved) ----------------------------------------------
# IR modules with branches, loops, phis, calls, memory and tables are obtained from two front ends (the Python
# subset corpus of contracts/c36.py and the WebAssembly programs of contracts/wasmprogs.py), translated by
# ir_to_python, executed, and compared with the front ends' independent references (CPython / hand-written Python).
# The front ends are in the trusted base of this stand-in (they are the subject of C36 and C22).
def bounded(tier_name, rnd):
    import random
    from contracts import c36 as P, wasmprogs as WP
    evals, vio = 0, []
    rng = range(-2, 5)
    ints = [(a, b) for a in rng for b in rng]
    floats = [(a * 0.5, b * 0.25) for a in range(-2, 3) for b in range(-2, 3)]
    for name, src in P.PROGRAMS:
        n, bad = P._run_program(name, src, floats if "float" in src else ints)
        evals += n
        vio += [dict(b, input=dict(b["input"], kind="python")) for b in bad[:1]]
    # the same fixed functions after ppci's own mem2reg / optimisation: the IR then carries phi nodes (loop-carried
    # values, swaps), which exercises the parallel phi assignment at block exits
    for name, src in P.PROGRAMS:
        n, bad = _run_optimized(name, src, floats if "float" in src else ints)
        evals += n
        vio += bad[:1]
    r = random.Random(20260925)
    ngen = 60 if tier_name == "quick" else 600
    gargs = [(a, b) for a in (-3, 0, 2, 4) for b in (-2, 1, 3)]
    for i in range(ngen):
        src = P.gen_function(r)
        n, judged, bad = P._run_generated("gen%d" % i, src, gargs)
        evals += n
        if len(vio) < 8:
            vio += [dict(b, input=dict(b["input"], kind="python")) for b in bad]
    ncalls = 0
    for pr in WP.PROGRAMS:
        try:
            bad = WP.run_program(pr)
        except Exception as ex:
            bad = [(0, 0, ("<instantiate>", ()), "instantiates", "raised %s: %s" % (type(ex).__name__, str(ex)[:100]))]
        ncalls += 2 * len(pr[2])
        for (rnd_i, ci, call, want, got) in bad[:1]:
            vio.append({"name": "wasm program %s through ir_to_python, instantiation %d, call %d %s%r == reference" % (pr[0], rnd_i + 1, ci, call[0], tuple(call[1])),
                        "input": {"kind": "wasm", "program": pr[0], "wat": pr[1]}, "expected": repr(want), "observed": repr(got)})
    evals += ncalls
    return {"evaluations": evals, "distinct_nontrivial": evals, "exhaustive": False,
            "rule": "IR modules from two front ends executed through ir_to_python: the %d fixed Python-subset functions x an argument grid, %d generated Python-subset functions x 12 argument "
                    "pairs (loops, nested branches, break / continue: block dispatch and phi filling), and %d WebAssembly programs (calls, recursion, call_indirect, memory, globals, br_table) "
                    "driven through fixed call sequences; results compared with CPython / hand-written references; each (module, arguments) pair is distinct"
                    % (len(P.PROGRAMS), ngen, len(WP.PROGRAMS)),
            "programs": len(P.PROGRAMS) + ngen + len(WP.PROGRAMS),
            "samples": [{"kind": "python", "program": P.PROGRAMS[2][0], "source": P.PROGRAMS[2][1], "args": [1, 3]}, {"kind": "wasm", "program": WP.PROGRAMS[1][0], "calls": [list(c) for c in WP.PROGRAMS[1][2][:3]]}],
            "bound": "IR produced by python_to_ir and wasm_to_ir from the two corpora; %s tier" % tier_name, "violations": vio}


def _run_optimized(name, src, args_list):
    from ppci.lang.python import python_to_ir, ir_to_python
    from ppci.api import optimize
    ns_ref = {}
    exec(src, ns_ref)
    m = python_to_ir(io.StringIO(src))
    optimize(m, level="2")
    nphi = sum(1 for f in m.functions for b in f for i in b if type(i).__name__ == "Phi")
    out = io.StringIO()
    ir_to_python([m], out)
    ns = {}
    exec(out.getvalue(), ns)
    bad, n = [], 0
    for args in args_list:
        n += 1
        want = ns_ref["f"](*args)
        try:
            got = ns["f"](*args)
        except Exception as e:
            got = "raised %r" % (e,)
        if got != want:
            bad.append({"name": "optimised (%d phis) %s%r through ir_to_python == CPython" % (nphi, name, tuple(args)),
                        "input": {"kind": "python-optimized", "program": name, "source": src, "args": list(args)}, "expected": repr(want), "observed": repr(got)})
            break
    return n, bad


def replay_bounded(inp):
    from contracts import c36 as P, wasmprogs as WP
    if inp.get("kind") == "python-optimized":
        n, bad = _run_optimized(inp["program"], inp["source"], [tuple(inp["args"])])
        return (False, bad[0]) if bad else (True, {"program": inp["program"], "args": inp["args"], "observed": "equals CPython"})
    if inp.get("kind") == "wasm":
        pr = [q for q in WP.PROGRAMS if q[0] == inp["program"]][0]
        bad = WP.run_program(pr)
        if bad:
            rnd_i, ci, call, want, got = bad[0]
            return False, {"program": pr[0], "call": "%s%r" % (call[0], tuple(call[1])), "expected": repr(want), "observed": repr(got)}
        return True, {"program": pr[0], "observed": "every call equals the reference"}
    return P.replay_bounded({k: v for k, v in inp.items() if k != "kind"})
